// libFuzzer target: C11's segmentation relation (see harness/src/vf/fuzz.rs)
#![no_main]
#![allow(dead_code, unused_imports, unused_variables, unused_mut, unexpected_cfgs)]

include!(env!("VERIF_MASSCANNED_ROOT"));

#[path = "../../harness/src/vf/mod.rs"]
mod vf;

use libfuzzer_sys::fuzz_target;

fuzz_target!(|data: &[u8]| {
    vf::sut::global_init();
    vf::sut::capture_init();
    vf::fuzz::stream(data);
});
