// "Answerable" requests: frames that the statements say are answered under an in-scope
// scenario — ARP request, echo, neighbour solicitation, SYN, handshaken TCP data carrying an
// application request, FIN|ACK, UDP carrying an application request. Shared by C02-C05, C12, C19.

use proptest::collection::vec;
use proptest::prelude::*;
use serde::{Deserialize, Serialize};
use std::net::IpAddr;

use super::codec::*;
use super::engine::*;
use super::gen::*;
use super::gen_app::*;
use super::session::*;
use super::sut::{Cfg, Out, Sut};
use super::traffic::{hostile_stun, HostileStun, Pay};
use super::util::*;

#[derive(Clone, Debug, Serialize, Deserialize, PartialEq, Hash)]
pub enum Req {
    /// ARP request for the server address (IPv4 scenarios), with Ethernet padding.
    /// `spa`: sender protocol address 0 = the client's, 1 = equal to the target (announcement
    /// style), 2 = 0.0.0.0 (probe style), 3 = another address; `tha`: target hardware address
    /// 0 = zero (usual), 1 = the frame's Ethernet destination (a unicast poll when that is the
    /// responder's MAC), 2 = broadcast, 3 = the client's MAC, 4 = other
    Arp { pad: u8, #[serde(default)] spa: u8, #[serde(default)] tha: u8,
          /// sender hardware address: false = the frame's Ethernet source (usual), true = another
          /// MAC (relayed / proxied request: the reply still goes to the frame's source)
          #[serde(default)] sha_other: bool },
    Echo { id: u16, seq: u16, data: Hex, pad: u8,
           /// IPv4 header options of the request (well-formed: NOP / Record Route / Timestamp / EOL,
           /// padded to a multiple of 4); ignored over IPv6
           #[serde(default)]
           ip4_opts: Hex },
    /// neighbour solicitation for the server address (IPv6 scenarios); well-formed NDP options
    /// `other_dst`: sent to this unicast address instead (a reachability probe through another
    /// address; the advertisement must still come from the solicited target)
    Ns { opts: Hex, unicast: bool, other_dst: Option<[u8; 16]> },
    Syn { sport: u16, dport: u16, seq: u32, extra: u16, payload: Hex },
    TcpData { sport: u16, dport: u16, isn: u32, pay: Pay },
    FinAck { sport: u16, dport: u16, seq: u32, ack: u32 },
    Udp { sport: u16, dport: u16, pay: Pay },
}

impl Req {
    pub fn kind(&self) -> String {
        match self {
            Req::Arp { .. } => "arp".into(),
            Req::Echo { .. } => "echo".into(),
            Req::Ns { .. } => "ns".into(),
            Req::Syn { .. } => "syn".into(),
            Req::TcpData { pay, .. } => format!("tcp-data/{}", pay.kind()),
            Req::FinAck { .. } => "fin-ack".into(),
            Req::Udp { pay, .. } => format!("udp/{}", pay.kind()),
        }
    }
}

pub fn ndp_opts_wf() -> impl Strategy<Value = Hex> {
    vec((prop::sample::select(vec![1u8, 14, 200]), any::<[u8; 6]>()), 0..3).prop_map(|o| {
        let mut v = Vec::new();
        for (t, d) in o {
            v.push(t);
            v.push(1);
            v.extend_from_slice(&d);
        }
        Hex(v)
    })
}

pub fn echo_data() -> impl Strategy<Value = Hex> {
    prop_oneof![
        6 => vec(any::<u8>(), 0..64).prop_map(Hex),
        3 => (0usize..=1472, any::<u8>(), 0u8..3).prop_map(|(n, b, mode)| Hex(match mode { 0 => vec![0xff; n], 1 => vec![0; n], _ => (0..n).map(|i| b.wrapping_add(i as u8)).collect() })),
    ]
}

/// well-formed IPv4 options (mostly none)
pub fn ip4_options() -> impl Strategy<Value = Hex> {
    prop_oneof![
        6 => Just(Hex(vec![])),
        1 => (1usize..=9, any::<[u8; 36]>(), prop_oneof![3 => Just(4u8), 2 => prop::sample::select(vec![0u8, 1, 2, 3, 5, 8, 12, 36, 40, 255]), 1 => any::<u8>()], prop::sample::select(vec![7u8, 7, 7, 131, 137])).prop_map(|(slots, d, ptr, kind)| {
            // Record Route (7) / loose and strict source route (131, 137): length 3 + 4*slots,
            // pointer 4 as senders set it — or 0..3, past the end, anything (the peer controls it)
            let mut v = vec![kind, (3 + 4 * slots) as u8, ptr];
            v.extend_from_slice(&d[..4 * slots]);
            v.push(0);
            while v.len() % 4 != 0 {
                v.push(0);
            }
            v.truncate(40);
            Hex(v)
        }),
        1 => (1usize..=4, any::<[u8; 32]>(), 0u8..4, prop_oneof![3 => Just(5u8), 2 => prop::sample::select(vec![0u8, 1, 4, 9, 37, 255]), 1 => any::<u8>()], prop_oneof![3 => Just(0u8), 1 => any::<u8>()]).prop_map(|(slots, d, flag, ptr, oflw)| {
            // Timestamp: type 68, length 4 + 8*slots (flag 1/3) or 4*slots, pointer 5 (or not), oflw/flag
            let per = if flag == 0 { 4 } else { 8 };
            let mut v = vec![68u8, (4 + per * slots) as u8, ptr, (oflw & 0xf0) | (flag & 3)];
            v.extend_from_slice(&d[..per * slots]);
            while v.len() % 4 != 0 {
                v.push(1);
            }
            v.truncate(40);
            Hex(v)
        }),
        1 => (1usize..=10).prop_map(|w| Hex(vec![1u8; w * 4])),
    ]
}

/// TCP options as stacks send them (MSS, window scale, SACK-permitted, timestamps, NOP / EOL
/// padding, TCP Fast Open cookie, MD5 signature, an unknown kind), padded to a multiple of 4
pub fn tcp_options() -> impl Strategy<Value = Hex> {
    // one short option repeated until the 40 bytes of option space are (nearly) full: whatever a
    // responder derives per option, it derives 10..40 times
    let repeated = (prop::sample::select(vec![vec![4u8, 2], vec![3u8, 3, 7], vec![1u8], vec![2u8, 4, 5, 180], vec![8u8, 10, 0, 0, 0, 1, 0, 0, 0, 0]]), 4usize..=40).prop_map(|(o, n)| {
        let mut v: Vec<u8> = Vec::new();
        for _ in 0..n {
            if v.len() + o.len() > 40 {
                break;
            }
            v.extend_from_slice(&o);
        }
        while v.len() % 4 != 0 {
            v.push(1);
        }
        Hex(v)
    });
    prop_oneof![6 => tcp_options_mixed(), 1 => repeated]
}

fn tcp_options_mixed() -> impl Strategy<Value = Hex> {
    let one = prop_oneof![
        3 => prop_oneof![2 => prop::sample::select(vec![0u16, 1, 536, 1220, 1460, 8960, 65535]), 1 => any::<u16>()].prop_map(|m| vec![2u8, 4, (m >> 8) as u8, m as u8]),
        2 => prop_oneof![3 => 0u8..15, 1 => prop::sample::select(vec![14u8, 15, 255])].prop_map(|w| vec![3u8, 3, w]),
        2 => Just(vec![4u8, 2]),
        3 => prop_oneof![2 => any::<[u8; 8]>(), 1 => Just([0u8; 8]), 1 => Just([0xffu8; 8])].prop_map(|t| { let mut v = vec![8u8, 10]; v.extend_from_slice(&t); v }),
        2 => Just(vec![1u8]),
        1 => any::<[u8; 8]>().prop_map(|t| { let mut v = vec![34u8, 10]; v.extend_from_slice(&t); v }),
        1 => any::<[u8; 16]>().prop_map(|t| { let mut v = vec![19u8, 18]; v.extend_from_slice(&t); v }),
        1 => (any::<u8>(), vec(any::<u8>(), 0..6)).prop_map(|(k, d)| { let mut v = vec![k.max(35), (2 + d.len()) as u8]; v.extend_from_slice(&d); v }),
        // the well-known kinds with a length octet other than the one their RFC gives them (the
        // peer controls it): MSS of 2 / 3 / 5 / 6 bytes, a 4-byte window scale, timestamps of 9 ...
        2 => (prop::sample::select(vec![2u8, 2, 3, 4, 8]), 2u8..12, any::<[u8; 10]>()).prop_map(|(k, l, d)| { let mut v = vec![k, l]; v.extend_from_slice(&d[..(l as usize - 2)]); v }),
    ];
    vec(one, 1..6).prop_map(|os| {
        let mut v: Vec<u8> = os.into_iter().flatten().collect();
        v.truncate(40);
        while v.len() % 4 != 0 {
            v.push(if v.len() % 2 == 0 { 1 } else { 0 });
        }
        // an EOL in the middle would hide the rest: keep padding NOP except for the very last byte
        let n = v.len();
        for (i, b) in v.iter_mut().enumerate() {
            if *b == 0 && i + 1 != n {
                // only padding bytes we appended can be zero here by construction of the kinds above
            }
        }
        v.truncate(40 - (40 % 4));
        Hex(v)
    })
}

pub fn req(v4: bool) -> BoxedStrategy<Req> {
    let syn_extra = prop::sample::select(vec![0u16, F_PSH, F_URG, F_ECE, F_CWR, F_PSH | F_URG, F_PSH | F_ECE, F_URG | F_CWR, F_PSH | F_URG | F_ECE]);
    let payload = prop_oneof![
        6 => app_req().prop_map(Pay::App),
        1 => hostile_stun().prop_map(Pay::Stun),
    ];
    let payload2 = prop_oneof![
        6 => app_req().prop_map(Pay::App),
        1 => hostile_stun().prop_map(Pay::Stun),
    ];
    let l2 = if v4 {
        (0u8..19, prop_oneof![4 => Just(0u8), 1 => 1u8..4], prop_oneof![3 => Just(0u8), 2 => Just(1u8), 1 => 2u8..5]).prop_map(|(pad, spa, tha)| Req::Arp { pad, spa, tha, sha_other: pad % 5 == 1 }).boxed()
    } else {
        (ndp_opts_wf(), any::<bool>(), prop::option::weighted(0.3, any::<[u8; 16]>())).prop_map(|(opts, unicast, other_dst)| Req::Ns { opts, unicast, other_dst }).boxed()
    };
    prop_oneof![
        2 => l2,
        3 => (any::<u16>(), any::<u16>(), echo_data(), prop_oneof![3 => Just(0u8), 1 => 1u8..20], ip4_options()).prop_map(|(id, seq, data, pad, ip4_opts)| Req::Echo { id, seq, data, pad, ip4_opts }),
        3 => (port(), port(), prop_oneof![1 => any::<u32>(), 1 => prop::sample::select(vec![0u32, 1, 0x7fffffff, 0x80000000, 0xffffffff])], syn_extra, prop_oneof![3 => Just(Hex(vec![])), 1 => bytes(64)]).prop_map(|(sport, dport, seq, extra, payload)| Req::Syn { sport, dport, seq, extra, payload }),
        6 => (port(), port(), any::<u32>(), payload).prop_map(|(sport, dport, isn, pay)| Req::TcpData { sport, dport, isn, pay }),
        1 => (port(), port(), any::<u32>(), any::<u32>()).prop_map(|(sport, dport, seq, ack)| Req::FinAck { sport, dport, seq, ack }),
        6 => (port(), port(), payload2).prop_map(|(sport, dport, pay)| Req::Udp { sport, dport, pay }),
    ]
    .boxed()
}

/// Concrete request frame (performing the handshake for TcpData). Err = could not be built
/// (e.g. SYN not answered) — callers treat that as its own failure where appropriate.
pub fn realize(sut: &Sut, net: &Net, r: &Req) -> Result<Vec<u8>, String> {
    Ok(match r {
        Req::Arp { pad, spa, tha, sha_other } => match (&net.cip, &net.sip) {
            (IpAddr::V4(c), IpAddr::V4(s)) => {
                let spa = match spa { 0 => c.octets(), 1 => s.octets(), 2 => [0; 4], _ => { let mut o = c.octets(); o[2] ^= 0x55; o } };
                let tha = match tha { 0 => [0u8; 6], 1 => net.dmac, 2 => BCAST, 3 => net.cmac, _ => [0x02, 0xaa, *pad, 0x11, 0x22, 0x33] };
                let sha = if *sha_other { [0x02, 0x5a, net.cmac[2] ^ 0xff, net.cmac[3], net.cmac[4], net.cmac[5] ^ 1] } else { net.cmac };
                let m = ArpM { htype: 1, ptype: 0x0800, hlen: 6, plen: 4, op: 1, sha, spa, tha, tpa: s.octets() };
                let mut f = eth(&net.dmac, &net.cmac, ET_ARP, &arp(&m));
                f.extend(std::iter::repeat(0u8).take(*pad as usize));
                f
            }
            _ => return Err("ARP request needs an IPv4 scenario".into()),
        },
        Req::Echo { id, seq, data, pad, ip4_opts } => {
            let mut f = match (&net.cip, &net.sip) {
                (IpAddr::V4(c), IpAddr::V4(sv)) if !ip4_opts.is_empty() => {
                    let mut rest = Vec::with_capacity(4 + data.len());
                    rest.extend_from_slice(&id.to_be_bytes());
                    rest.extend_from_slice(&seq.to_be_bytes());
                    rest.extend_from_slice(data);
                    let mut h = Ip4H::new(c.octets(), sv.octets(), P_ICMP);
                    h.options = ip4_opts.0.clone();
                    eth(&net.dmac, &net.cmac, ET_V4, &ip4(&h, &icmp4(8, 0, &rest)))
                }
                _ => echo_frame(net, *id, *seq, data),
            };
            f.extend(std::iter::repeat(0x55u8).take(*pad as usize));
            f
        }
        Req::Ns { opts, unicast, other_dst } => match &net.sip {
            IpAddr::V6(s) => {
                let mut n = net.clone();
                if let Some(o) = other_dst {
                    // a unicast destination other than the target (never multicast)
                    let mut o = *o;
                    if o[0] == 0xff {
                        o[0] = 0x20;
                    }
                    n.sip = IpAddr::V6(std::net::Ipv6Addr::from(o));
                    n.dmac = net.dmac;
                } else if !*unicast {
                    // to the solicited-node multicast group of the target
                    let o = s.octets();
                    let mut g = [0u8; 16];
                    g[0] = 0xff;
                    g[1] = 0x02;
                    g[11] = 1;
                    g[12] = 0xff;
                    g[13..].copy_from_slice(&o[13..]);
                    n.sip = IpAddr::V6(std::net::Ipv6Addr::from(g));
                }
                ns_frame(&n, &s.octets(), opts)
            }
            _ => return Err("NS needs an IPv6 scenario".into()),
        },
        Req::Syn { sport, dport, seq, extra, payload } => tcp_frame(net, &TcpH::new(*sport, *dport, *seq, 0, F_SYN | *extra), payload),
        Req::TcpData { sport, dport, isn, pay } => {
            let flow = Flow { net: net.clone(), sport: *sport, dport: *dport };
            let cookie = learn_cookie(sut, &flow, *isn)?;
            flow.data(isn.wrapping_add(1), cookie.wrapping_add(1), &pay.bytes(true))
        }
        Req::FinAck { sport, dport, seq, ack } => tcp_frame(net, &TcpH::new(*sport, *dport, *seq, *ack, F_FIN | F_ACK), &[]),
        Req::Udp { sport, dport, pay } => udp_frame(net, *sport, *dport, &pay.bytes(false)),
    })
}

/// Independent STUN walk of a request payload: (is a binding request header, number of
/// CHANGE-REQUEST attributes with the change-port bit, list is 4-byte aligned)
pub fn stun_change_ports(p: &[u8]) -> Option<(usize, bool)> {
    if p.len() < 20 {
        return None;
    }
    let l = be16(p, 2) as usize;
    if p.len() < 20 + l {
        return None;
    }
    let a = &p[20..20 + l];
    let mut i = 0;
    let mut n = 0;
    let mut aligned = true;
    while i + 4 < a.len() {
        let t = be16(a, i);
        let al = be16(a, i + 2) as usize;
        if al % 4 != 0 {
            aligned = false;
        }
        if i + 4 + al > a.len() {
            return None;
        }
        if t == 3 && al >= 4 && be32(a, i + 4) & 2 != 0 {
            n += 1;
        }
        i += 4 + al;
    }
    Some((n, aligned))
}

/// C03's relation: the reply's address/port tuple is the mirror image of the request's.
pub fn mirror_check(cfg: &Cfg, reqf: &[u8], d: &Dec) -> Check {
    let rv = match view_request_ext(reqf) {
        Some(v) => v,
        None => vfail!("a frame shorter than an Ethernet header was answered"),
    };
    vensure!(d.src == cfg.mac, "reply Ethernet source {} is not the configured MAC {}", hex(&d.src), hex(&cfg.mac));
    vensure!(d.dst == rv.src, "reply Ethernet destination {} is not the requester's MAC {}", hex(&d.dst), hex(&rv.src));
    vensure!(d.ethertype == rv.ethertype, "reply EtherType {:#06x} differs from the request's {:#06x}", d.ethertype, rv.ethertype);
    match &d.l3 {
        L3D::Arp(m, _) => {
            let rq = match parse_arp(&reqf[14..]) {
                Some(a) => a,
                None => vfail!("ARP reply to something that is not an ARP message"),
            };
            vensure!(m.tha == rq.sha && m.tpa == rq.spa, "ARP reply target ({},{:?}) is not the requester's pair ({},{:?})", hex(&m.tha), m.tpa, hex(&rq.sha), rq.spa);
            vensure!(m.spa == rq.tpa, "ARP reply sender protocol address {:?} is not the requested address {:?}", m.spa, rq.tpa);
            vensure!(m.sha == cfg.mac, "ARP reply sender hardware address {} is not the configured MAC", hex(&m.sha));
        }
        L3D::Ip(ip) => {
            let rq = match &rv.ip {
                Some(i) => i,
                None => vfail!("IP reply to a frame without a parseable IP header"),
            };
            vensure!(ip.v == rq.v, "reply IP version {} differs from the request's {}", ip.v, rq.v);
            vensure!(ip.proto == rq.proto, "reply transport {} differs from the request's {}", ip.proto, rq.proto);
            vensure!(ip.dst == rq.src, "reply IP destination {} is not the request's source {}", ip.dst, rq.src);
            // expected source: request destination; for ND: the solicited target
            let mut want_src = rq.dst;
            if let L4D::Icmp6 { typ: 136, rest, .. } = &ip.l4 {
                if rq.l4.len() >= 24 && rq.l4[0] == 135 {
                    let mut t = [0u8; 16];
                    t.copy_from_slice(&rq.l4[8..24]);
                    want_src = IpAddr::V6(std::net::Ipv6Addr::from(t));
                }
                let _ = rest;
            }
            vensure!(ip.src == want_src, "reply IP source {} is not the identity addressed {}", ip.src, want_src);
            match &ip.l4 {
                L4D::Tcp(t) => {
                    vensure!(rq.l4.len() >= 20, "TCP reply to a truncated TCP header");
                    let (rs, rd) = (be16(&rq.l4, 0), be16(&rq.l4, 2));
                    vensure!(t.dport == rs, "TCP reply destination port {} is not the request's source port {}", t.dport, rs);
                    let doff = ((rq.l4[12] >> 4) as usize * 4).max(20).min(rq.l4.len());
                    port_check("TCP", t.sport, rd, &rq.l4[doff..], &t.payload)?;
                }
                L4D::Udp(u) => {
                    vensure!(rq.l4.len() >= 8, "UDP reply to a truncated UDP header");
                    let (rs, rd) = (be16(&rq.l4, 0), be16(&rq.l4, 2));
                    vensure!(u.dport == rs, "UDP reply destination port {} is not the request's source port {}", u.dport, rs);
                    port_check("UDP", u.sport, rd, &rq.l4[8..], &u.payload)?;
                }
                _ => {}
            }
        }
        L3D::Other => vfail!("reply with EtherType {:#06x}", d.ethertype),
    }
    Ok(())
}

fn port_check(what: &str, got: u16, dport: u16, payload: &[u8], reply_payload: &[u8]) -> Check {
    // sole exception: a STUN binding request with CHANGE-REQUEST/change-port => dport + 1.
    // It only applies where the STUN responder answered (the reply is a binding success response).
    // (the two most significant bits of the message type are not part of class or method; the
    // responder ignores them, and the statement does not say what a message with those bits set
    // is, so such a message with class request / method binding counts as a STUN request here)
    let stun_like = payload.len() >= 20 && payload[0] & 0x3f == 0 && payload[1] == 1 && reply_payload.len() >= 20 && reply_payload[0] == 1 && reply_payload[1] == 1;
    let expect: Vec<u16> = if stun_like {
        match stun_change_ports(payload) {
            Some((0, true)) => vec![dport],
            Some((_, true)) => vec![dport.wrapping_add(1)],
            // unaligned TLV list: the walk is ambiguous, accept both
            _ => vec![dport, dport.wrapping_add(1)],
        }
    } else {
        vec![dport]
    };
    if !expect.contains(&got) {
        return Err(Failure::new(format!("{} reply source port {} but the request was sent to port {} (allowed: {:?}; STUN change-port is the sole exception)", what, got, dport, expect)));
    }
    Ok(())
}
