// TCP session helper: black-box handshake (the cookie is *learned* from the SUT's SYN-ACK,
// never recomputed), data segments with correct seq/ack bookkeeping.

use serde::{Deserialize, Serialize};

use super::codec::*;
use super::sut::{Out, Sut};

#[derive(Clone, Debug, Serialize, Deserialize, PartialEq, Eq, Hash)]
pub struct Flow {
    pub net: Net,
    pub sport: u16,
    pub dport: u16,
}

impl Flow {
    pub fn syn(&self, seq: u32) -> Vec<u8> {
        tcp_frame(&self.net, &TcpH::new(self.sport, self.dport, seq, 0, F_SYN), &[])
    }
    pub fn seg(&self, seq: u32, ack: u32, flags: u16, payload: &[u8]) -> Vec<u8> {
        tcp_frame(&self.net, &TcpH::new(self.sport, self.dport, seq, ack, flags), payload)
    }
    pub fn data(&self, seq: u32, ack: u32, payload: &[u8]) -> Vec<u8> {
        self.seg(seq, ack, F_PSH | F_ACK, payload)
    }
}

/// Send a SYN and return the sequence number of the SYN-ACK (the cookie).
pub fn learn_cookie(sut: &Sut, flow: &Flow, seq: u32) -> Result<u32, String> {
    match sut.frame(&flow.syn(seq)) {
        Out::Reply(r) => {
            let d = decode_reply(&r)?;
            match d.tcp() {
                Some(t) if t.flags == (F_SYN | F_ACK) => Ok(t.seq),
                Some(t) => Err(format!("reply to SYN has flags {:#x}", t.flags)),
                None => Err("reply to SYN is not TCP".to_string()),
            }
        }
        Out::Silence => Err("SYN not answered".to_string()),
        Out::Panic(p) => Err(format!("panic on SYN: {} {}", p.file, p.msg)),
    }
}

/// Result of delivering one data segment
#[derive(Clone, Debug, PartialEq)]
pub enum SegReply {
    /// no frame
    Silence,
    /// bare ACK (no payload)
    Ack,
    /// PSH|ACK (or other) with payload
    Data(Vec<u8>),
    Other(String),
}

pub fn classify_seg_reply(out: &Out) -> SegReply {
    match out {
        Out::Silence => SegReply::Silence,
        Out::Panic(p) => SegReply::Other(format!("panic {}:{} {}", p.file, p.line, p.msg)),
        Out::Reply(r) => match decode_reply(r) {
            Err(e) => SegReply::Other(e),
            Ok(d) => match d.tcp() {
                None => SegReply::Other("non-TCP reply".into()),
                Some(t) => {
                    if t.payload.is_empty() && t.flags == F_ACK {
                        SegReply::Ack
                    } else if !t.payload.is_empty() {
                        SegReply::Data(t.payload.clone())
                    } else {
                        SegReply::Other(format!("flags {:#x} without payload", t.flags))
                    }
                }
            },
        },
    }
}

/// Deliver `stream` over a freshly handshaken flow, cut into the given segment lengths.
/// Returns per-segment classification.
pub fn deliver(sut: &Sut, flow: &Flow, isn: u32, stream: &[u8], seg_lens: &[usize]) -> Result<Vec<SegReply>, String> {
    let cookie = learn_cookie(sut, flow, isn)?;
    let mut seq = isn.wrapping_add(1);
    let ack = cookie.wrapping_add(1);
    let mut off = 0usize;
    let mut out = Vec::with_capacity(seg_lens.len());
    for l in seg_lens {
        let end = (off + l).min(stream.len());
        let seg = &stream[off..end];
        let o = sut.frame(&flow.data(seq, ack, seg));
        out.push(classify_seg_reply(&o));
        seq = seq.wrapping_add(seg.len() as u32);
        off = end;
    }
    Ok(out)
}
