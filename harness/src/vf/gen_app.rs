// Application-protocol request generators (well-formed domains of C13–C18; payload pool of
// C01/C03/C04/C08/C10/C12/C19). Fault injection lives in the property modules.

use proptest::collection::vec;
use proptest::prelude::*;
use serde::{Deserialize, Serialize};

use super::util::*;

pub const HTTP_VERBS: [&str; 9] = ["GET", "PUT", "POST", "HEAD", "DELETE", "CONNECT", "OPTIONS", "TRACE", "PATCH"];

/// valid UTF-8 text that mixes ASCII with 2-, 3- and 4-byte characters, byte length in
/// [min, max]: multi-byte characters end up straddling every offset (what a log line truncated
/// at a fixed byte count, or a lossy conversion, has to cope with); no SP / CR / LF
pub fn utf8_text(min: usize, max: usize) -> impl Strategy<Value = Vec<u8>> {
    (min..=max, vec((any::<u16>(), prop::sample::select(vec!['é', 'ü', 'ß', '€', '中', '한', '𝄞', '😀', '\u{7ff}', '\u{800}', '\u{ffff}'])), 1..10), any::<u8>()).prop_map(move |(n, ins, c)| {
        let mut chars: Vec<char> = std::iter::repeat((b'a' + c % 26) as char).take(n).collect();
        for (p, ch) in ins {
            let k = pick(p, chars.len().max(1));
            if k < chars.len() {
                chars[k] = ch;
            }
        }
        let mut v: Vec<u8> = Vec::new();
        for ch in chars {
            let mut b = [0u8; 4];
            let e = ch.encode_utf8(&mut b).as_bytes();
            if v.len() + e.len() > max {
                break;
            }
            v.extend_from_slice(e);
        }
        v
    })
}

// ---------------------------------------------------------------------------------------
// HTTP

#[derive(Clone, Debug, Serialize, Deserialize, PartialEq, Hash)]
pub struct HttpReq {
    pub verb: usize,
    /// request-target without the leading '/', bytes other than SP / CR / LF
    pub target: Hex,
    pub major: String,
    pub minor: String,
    /// (name, separator-and-value bytes after the colon)
    pub headers: Vec<(String, Hex)>,
    /// line ending per line (request line, each header, empty line): true = CRLF, false = LF
    pub crlf: Vec<bool>,
    pub tail: Hex,
}

impl HttpReq {
    pub fn eol(&self, i: usize) -> &'static [u8] {
        if self.crlf.get(i).cloned().unwrap_or(true) {
            b"\r\n"
        } else {
            b"\n"
        }
    }
    pub fn request_line(&self) -> Vec<u8> {
        let mut v = Vec::new();
        v.extend_from_slice(HTTP_VERBS[self.verb].as_bytes());
        v.extend_from_slice(b" /");
        v.extend_from_slice(&self.target);
        v.extend_from_slice(b" HTTP/");
        v.extend_from_slice(self.major.as_bytes());
        v.push(b'.');
        v.extend_from_slice(self.minor.as_bytes());
        v
    }
    /// (bytes, offset one past the LF of the terminating empty line)
    pub fn bytes_and_end(&self) -> (Vec<u8>, usize) {
        let mut v = self.request_line();
        v.extend_from_slice(self.eol(0));
        for (i, (n, val)) in self.headers.iter().enumerate() {
            v.extend_from_slice(n.as_bytes());
            v.push(b':');
            v.extend_from_slice(val);
            v.extend_from_slice(self.eol(1 + i));
        }
        v.extend_from_slice(self.eol(1 + self.headers.len()));
        let end = v.len();
        v.extend_from_slice(&self.tail);
        (v, end)
    }
    pub fn bytes(&self) -> Vec<u8> {
        self.bytes_and_end().0
    }
}

fn target_bytes() -> impl Strategy<Value = Hex> {
    prop_oneof![
        3 => "[a-zA-Z0-9/._?=&%-]{0,40}".prop_map(|s| Hex(s.into_bytes())),
        2 => vec(any::<u8>().prop_map(|b| if b == b' ' || b == b'\r' || b == b'\n' { b'x' } else { b }), 0..60).prop_map(Hex),
        1 => vec(prop::sample::select(vec![0x80u8, 0xff, 0xc3, 0x28, 0xfe, 0x00, b'a', b'/']), 1..24).prop_map(Hex),
        1 => Just(Hex(vec![])),
        1 => utf8_text(20, 300).prop_map(Hex),
        // long targets (log-line truncation, buffer limits), ASCII with multi-byte / invalid UTF-8 sprinkled in
        1 => (100usize..400, vec((any::<u16>(), prop::sample::select(vec![0xc3u8, 0xa9, 0xff, 0xe2, 0x82, 0xac, 0xf0, 0x80])), 0..12), any::<u8>()).prop_map(|(n, hi, c)| {
            let mut v = vec![b'a' + c % 26; n];
            for (p, b) in hi {
                let k = pick(p, n);
                v[k] = b;
            }
            Hex(v)
        }),
    ]
}

fn header_value() -> impl Strategy<Value = Hex> {
    prop_oneof![
        3 => " [ -~]{0,40}".prop_map(|s| Hex(s.into_bytes())),
        // a value that itself looks like the start of a request line / contains a colon
        1 => (0usize..9, "[ ]?", "[a-z/:]{0,10}").prop_map(|(v, sp, t)| Hex(format!("{}{} /{}", sp, HTTP_VERBS[v], t).into_bytes())),
        1 => Just(Hex(vec![])),
        1 => vec(any::<u8>().prop_map(|b| if b == b'\r' || b == b'\n' { b':' } else { b }), 0..40).prop_map(Hex),
    ]
}

/// header fields that carry protocol semantics in HTTP/1.x (framing, connection management,
/// authentication, proxying) with values of the kind clients really send; the name's case varies
fn known_header() -> impl Strategy<Value = (String, Hex)> {
    let hv = prop_oneof![
        4 => (prop::sample::select(vec!["Content-Length", "Content-Length", "content-length", "CONTENT-LENGTH"]), prop_oneof![3 => (0u32..64).prop_map(|n| n.to_string()), 1 => Just("0".to_string()), 1 => (64u32..100000).prop_map(|n| n.to_string()), 1 => Just("18446744073709551616".to_string()), 1 => "[0-9a-f+ -]{1,6}"]).prop_map(|(n, v)| (n.to_string(), v)),
        2 => (Just("Transfer-Encoding"), prop::sample::select(vec!["chunked", "gzip, chunked", "identity"])).prop_map(|(n, v)| (n.to_string(), v.to_string())),
        2 => (prop::sample::select(vec!["Connection", "Proxy-Connection"]), prop::sample::select(vec!["keep-alive", "close", "Upgrade", "Keep-Alive, Upgrade"])).prop_map(|(n, v)| (n.to_string(), v.to_string())),
        2 => (Just("Host"), prop::sample::select(vec!["localhost", "example.com:443", "[::1]:8080", "10.0.0.1", ""])).prop_map(|(n, v)| (n.to_string(), v.to_string())),
        1 => (Just("Expect"), Just("100-continue")).prop_map(|(n, v)| (n.to_string(), v.to_string())),
        1 => (Just("Upgrade"), prop::sample::select(vec!["h2c", "websocket", "TLS/1.0"])).prop_map(|(n, v)| (n.to_string(), v.to_string())),
        2 => (prop::sample::select(vec!["Authorization", "Proxy-Authorization"]), prop::sample::select(vec!["Basic YWRtaW46YWRtaW4=", "Digest username=\"a\"", "Bearer x", "NTLM TlRMTVNTUAABAAAA", "Negotiate"])).prop_map(|(n, v)| (n.to_string(), v.to_string())),
        1 => (prop::sample::select(vec!["Range", "Content-Type", "User-Agent", "Accept-Encoding", "Cookie", "TE", "Trailer", "Via", "X-Forwarded-For", "Max-Forwards"]), prop::sample::select(vec!["bytes=0-", "application/x-www-form-urlencoded", "Mozilla/5.0 zgrab/0.x", "gzip", "a=b", "trailers", "1.1 proxy", "127.0.0.1", "0"])).prop_map(|(n, v)| (n.to_string(), v.to_string())),
    ];
    (hv, prop_oneof![4 => Just(" "), 1 => Just(""), 1 => Just("\t"), 1 => Just("  ")]).prop_map(|((n, v), sep)| (n, Hex(format!("{}{}", sep, v).into_bytes())))
}

pub fn http_req() -> BoxedStrategy<HttpReq> {
    let inner = (|| {
    (
        0usize..9,
        target_bytes(),
        "[0-9]{1,2}",
        "[0-9]{1,2}",
        vec(prop_oneof![3 => ("[A-Za-z][A-Za-z0-9-]{0,14}", header_value()).boxed(), 2 => known_header().boxed()], 0..=5),
        vec(any::<bool>(), 8),
        // bytes after the empty line: none, a few (a body shorter / as long as / longer than an
        // announced Content-Length), arbitrary
        prop_oneof![4 => Just(Hex(vec![])), 2 => vec(any::<u8>(), 0..40).prop_map(Hex), 1 => (0usize..70, any::<u8>()).prop_map(|(n, b)| Hex(vec![b; n]))],
    )
        .prop_map(|(verb, target, major, minor, headers, crlf, tail)| HttpReq { verb, target, major, minor, headers, crlf, tail })
})();
    inner.boxed()
}

// ---------------------------------------------------------------------------------------
// SSH

#[derive(Clone, Debug, Serialize, Deserialize, PartialEq, Hash)]
pub struct SshBanner {
    pub v199: bool,
    pub vtail: String,
    pub software: Hex,
    pub comment: Option<Hex>,
    pub tail: Hex,
}

impl SshBanner {
    pub fn head(&self) -> Vec<u8> {
        let mut v = b"SSH-".to_vec();
        v.extend_from_slice(if self.v199 { b"1.99" } else { b"2.0" });
        v.extend_from_slice(self.vtail.as_bytes());
        v.push(b'-');
        v.extend_from_slice(&self.software);
        if let Some(c) = &self.comment {
            v.push(b' ');
            v.extend_from_slice(c);
        }
        v
    }
    pub fn bytes(&self) -> Vec<u8> {
        let mut v = self.head();
        v.extend_from_slice(b"\r\n");
        v.extend_from_slice(&self.tail);
        v
    }
}

/// software / comment bytes: arbitrary, may hold lone CR; never contains SP (software) —
/// CR LF inside is allowed by the grammar (it simply terminates the banner earlier)
fn ssh_text(allow_sp: bool, min: usize) -> impl Strategy<Value = Hex> {
    prop_oneof![
        3 => vec(prop::sample::select((0x21u8..0x7f).collect::<Vec<u8>>()), min..40).prop_map(Hex),
        2 => vec(any::<u8>(), min..80).prop_map(Hex),
        2 => vec(prop::sample::select(vec![b'\r', b'a', b'\r', 0u8, 0xffu8, b'-', b'\n']), min..20).prop_map(Hex),
        2 => utf8_text(min.max(30), 79).prop_map(Hex),
    ]
    .prop_map(move |mut h| {
        if !allow_sp {
            for b in h.0.iter_mut() {
                if *b == b' ' {
                    *b = b'_';
                }
            }
        }
        h
    })
}

/// identification strings at the RFC 4253 size limit: 240..255 bytes including CR LF, software
/// made of printable bytes with lone CRs sprinkled in
pub fn ssh_banner_long() -> impl Strategy<Value = SshBanner> {
    (any::<bool>(), 240usize..=255, vec(any::<u16>(), 0..70), any::<u8>()).prop_map(|(v199, total, crs, c)| {
        let head = if v199 { 9 } else { 8 }; // "SSH-1.99-" / "SSH-2.0-"
        let n = total - head - 2;
        let mut sw = vec![b'a' + c % 26; n];
        for p in crs {
            let k = pick(p, n);
            // a lone CR (never followed by LF, never last)
            if k + 1 < n && sw[k + 1] != b'\n' {
                sw[k] = b'\r';
            }
        }
        if sw[n - 1] == b'\r' {
            sw[n - 1] = b'x';
        }
        SshBanner { v199, vtail: String::new(), software: Hex(sw), comment: None, tail: Hex(vec![]) }
    })
}

pub fn ssh_banner() -> BoxedStrategy<SshBanner> {
    let inner = (|| {
    prop_oneof![12 => ssh_banner_plain(), 1 => ssh_banner_long()]
})();
    inner.boxed()
}

fn ssh_banner_plain() -> impl Strategy<Value = SshBanner> {
    (any::<bool>(), "[0-9.]{0,4}", ssh_text(false, 1), prop::option::of(ssh_text(true, 0)), prop_oneof![2 => Just(Hex(vec![])), 1 => vec(any::<u8>(), 0..30).prop_map(Hex)])
        .prop_map(|(v199, vtail, software, comment, tail)| SshBanner { v199, vtail, software, comment, tail })
}

// ---------------------------------------------------------------------------------------
// Gh0st

pub fn ghost_req() -> BoxedStrategy<Hex> {
    let inner = (|| {
    let random_tail = vec(any::<u8>(), 0..300).prop_map(|t| {
        let mut v = b"Gh0st".to_vec();
        v.extend_from_slice(&t);
        Hex(v)
    });
    // a plausible Gh0st packet: magic, LE32 total length (exact / larger: truncated packet /
    // smaller / zero), LE32 uncompressed length, body
    let structured = (vec(any::<u8>(), 0..120), prop_oneof![2 => Just(0i32), 2 => 1i32..400, 1 => -13i32..0, 1 => Just(-100000i32)], any::<u16>()).prop_map(|(body, delta, ulen)| {
        let total = (13 + body.len() as i32 + delta).max(0) as u32;
        let mut v = b"Gh0st".to_vec();
        v.extend_from_slice(&total.to_le_bytes());
        v.extend_from_slice(&(ulen as u32).to_le_bytes());
        v.extend_from_slice(&body);
        Hex(v)
    });
    // a real Gh0st client packet: header + zlib stream of a command token followed by its
    // structure (the login packet — token 0x66 — carries OS version info, CPU speed, IP address,
    // host name, ...: a few hundred bytes); lengths consistent or lying
    let compressed = (prop_oneof![4 => Just(0x66u8), 1 => Just(0u8), 1 => any::<u8>()], 0usize..420, any::<[u8; 16]>(), 0u8..10, prop_oneof![4 => Just(0i32), 1 => -8i32..8]).prop_map(|(token, n, seed, level, lie)| {
        let mut plain = Vec::with_capacity(n + 1);
        plain.push(token);
        for i in 0..n {
            // compressible but not constant: text-like fields separated by zero runs
            plain.push(if (i / 24) % 2 == 0 { seed[i % 16] | 0x20 } else { 0 });
        }
        let z = zlib_compress(&plain, level as u32);
        let mut v = b"Gh0st".to_vec();
        v.extend_from_slice(&((13 + z.len()) as i32 + lie).max(0).to_le_bytes());
        v.extend_from_slice(&((plain.len() as i32 + lie).max(0)).to_le_bytes());
        v.extend_from_slice(&z);
        Hex(v)
    });
    prop_oneof![3 => random_tail, 2 => structured, 3 => compressed]
})();
    inner.boxed()
}

pub fn zlib_compress(data: &[u8], level: u32) -> Vec<u8> {
    use std::io::Write;
    let mut e = flate2::write::ZlibEncoder::new(Vec::new(), flate2::Compression::new(level.min(9)));
    let _ = e.write_all(data);
    e.finish().unwrap_or_default()
}

// ---------------------------------------------------------------------------------------
// STUN

#[derive(Clone, Debug, Serialize, Deserialize, PartialEq, Hash)]
pub struct StunAttr {
    pub typ: u16,
    /// value; the generator keeps lengths multiples of 4 in the positive domain
    pub value: Hex,
}

#[derive(Clone, Debug, Serialize, Deserialize, PartialEq, Hash)]
pub struct StunReq {
    /// message type word (0x0001 = Binding Request)
    pub mtype: u16,
    pub magic: bool,
    /// 16 bytes; bytes 0..4 are overwritten by the magic cookie when `magic`
    pub id: [u8; 16],
    pub attrs: Vec<StunAttr>,
    /// bytes after the end of the message as declared by its length field (same datagram /
    /// segment): not part of the STUN message
    #[serde(default)]
    pub trailer: Hex,
}

impl StunReq {
    pub fn attr_bytes(&self) -> Vec<u8> {
        let mut v = Vec::new();
        for a in &self.attrs {
            v.extend_from_slice(&a.typ.to_be_bytes());
            v.extend_from_slice(&(a.value.len() as u16).to_be_bytes());
            v.extend_from_slice(&a.value);
        }
        v
    }
    pub fn tid(&self) -> [u8; 16] {
        let mut id = self.id;
        if self.magic {
            id[0..4].copy_from_slice(&[0x21, 0x12, 0xa4, 0x42]);
        }
        id
    }
    pub fn bytes(&self) -> Vec<u8> {
        let ab = self.attr_bytes();
        let mut v = Vec::with_capacity(20 + ab.len());
        v.extend_from_slice(&self.mtype.to_be_bytes());
        v.extend_from_slice(&(ab.len() as u16).to_be_bytes());
        v.extend_from_slice(&self.tid());
        v.extend_from_slice(&ab);
        v.extend_from_slice(&self.trailer);
        v
    }
    /// number of CHANGE-REQUEST attributes with the change-port bit
    pub fn change_port_count(&self) -> usize {
        self.attrs.iter().filter(|a| a.typ == 3 && a.value.len() >= 4 && (be32(&a.value, 0) & 2) != 0).count()
    }
}

/// transaction ids: random, all-zero, or starting with eight zero bytes (bytes 4..12 of the
/// message then read as four zero DNS section counts) / a DNS-parseable layout
pub fn stun_id() -> impl Strategy<Value = [u8; 16]> {
    prop_oneof![
        8 => any::<[u8; 16]>(),
        1 => Just([0u8; 16]),
        1 => any::<[u8; 8]>().prop_map(|t| { let mut id = [0u8; 16]; id[8..].copy_from_slice(&t); id }),
        1 => Just([0, 1, 0, 0, 0, 0, 0, 0, 2, b'a', b'b', 0, 0, 1, 0, 1]),
    ]
}

pub fn stun_change_request() -> impl Strategy<Value = StunAttr> {
    // the flags word, usually alone (length 4), sometimes followed by further value bytes
    (0u8..8, prop_oneof![6 => Just(0usize), 1 => 1usize..=3], any::<[u8; 12]>()).prop_map(|(bits, extra_words, x)| {
        let mut v = vec![0, 0, 0, bits & 0x06];
        v.extend_from_slice(&x[..extra_words * 4]);
        StunAttr { typ: 3, value: Hex(v) }
    })
}

/// attribute types of the IANA STUN registry (RFC 3489 / 5389 / 5766 / 5780 / 8445 / 8489 ...)
/// other than MAPPED-ADDRESS (whose value the responder decodes) and CHANGE-REQUEST, with the
/// value length that is typical for each (0 = variable)
pub const STUN_ATTR_REGISTRY: [(u16, usize); 44] = [
    (0x0002, 8), (0x0004, 8), (0x0005, 8), (0x0006, 0), (0x0007, 0), (0x0008, 20), (0x0009, 0), (0x000a, 0), (0x000b, 8), (0x000c, 4),
    (0x000d, 4), (0x0012, 8), (0x0013, 0), (0x0014, 0), (0x0015, 0), (0x0016, 8), (0x0017, 4), (0x0018, 4), (0x0019, 4), (0x001a, 0),
    (0x001c, 32), (0x001d, 4), (0x001e, 32), (0x0020, 8), (0x0022, 8), (0x0024, 4), (0x0025, 0), (0x0026, 0), (0x0027, 4), (0x002a, 4),
    (0x8000, 4), (0x8022, 0), (0x8023, 8), (0x8025, 4), (0x8027, 4), (0x8028, 4), (0x8029, 8), (0x802a, 8), (0x802b, 8), (0x802c, 8),
    (0x802d, 4), (0x802e, 0), (0x8030, 0), (0xc001, 0),
];

fn stun_other_attr() -> impl Strategy<Value = StunAttr> {
    let typ_len = prop_oneof![
        // a registered type with its typical length (variable ones: any)
        5 => (prop::sample::select(STUN_ATTR_REGISTRY.to_vec()), 0usize..=16).prop_map(|((t, l), w)| (t, if l == 0 { w * 4 } else { l })),
        // a registered type with any length
        2 => (prop::sample::select(STUN_ATTR_REGISTRY.to_vec()), 0usize..=16).prop_map(|((t, _), w)| (t, w * 4)),
        2 => (prop::sample::select(vec![0x0000u16, 0x0000, 0x7777, 0xffff, 0x7fff, 0x8001]), 0usize..=16).prop_map(|(t, w)| (t, w * 4)),
        1 => (any::<u16>().prop_map(|t| if t == 1 || t == 3 { 0x8022 } else { t }), 0usize..=16).prop_map(|(t, w)| (t, w * 4)),
    ];
    (typ_len, any::<[u8; 32]>(), any::<[u8; 32]>()).prop_map(|((typ, len), a, b)| {
        let mut val = a.to_vec();
        val.extend_from_slice(&b);
        val.truncate(len);
        StunAttr { typ, value: Hex(val) }
    })
}

/// Well-formed binding request *with* magic cookie: 0..8 TLVs, CHANGE-REQUEST 0..3 times.
pub fn stun_req_magic() -> impl Strategy<Value = StunReq> {
    (stun_id(), vec(stun_other_attr(), 0..=5), prop_oneof![3 => vec((stun_change_request(), any::<u16>()), 0..=1), 1 => vec((stun_change_request(), any::<u16>()), 2..=3)]).prop_map(|(id, mut attrs, crs)| {
        for (c, pos) in crs {
            let p = pick(pos, attrs.len() + 1);
            attrs.insert(p, c);
        }
        StunReq { mtype: 1, magic: true, id, attrs, trailer: Hex(vec![]) }
    })
}

/// The two published RFC 3489 forms (no cookie): no attributes, or a single CHANGE-REQUEST.
pub fn stun_req_classic() -> impl Strategy<Value = StunReq> {
    (stun_id(), prop::option::of((0u8..8).prop_map(|bits| StunAttr { typ: 3, value: Hex(vec![0, 0, 0, bits & 0x06]) }))).prop_map(|(id, cr)| StunReq { mtype: 1, magic: false, id, attrs: cr.into_iter().collect(), trailer: Hex(vec![]) })
}

/// magic-cookie request whose attribute bytes exceed 255 (so that the message length's high
/// byte is non-zero and the request is outside the matcher's known shadowing divergence)
pub fn stun_req_magic_big() -> BoxedStrategy<StunReq> {
    let inner = (|| {
    // bytes behind the message (the length field says where it ends): nothing, zeros, something
    // that reads like a CHANGE-REQUEST with the change-port bit, a TLV announcing more than is
    // there, arbitrary bytes
    let trailer = prop_oneof![
        8 => Just(vec![]),
        1 => (1usize..24).prop_map(|n| vec![0u8; n]),
        2 => any::<u8>().prop_map(|b| vec![0, 3, 0, 4, 0, 0, 0, b | 2]),
        1 => any::<[u8; 3]>().prop_map(|b| vec![0, 1, 0xff, 0xf0, b[0], b[1], b[2]]),
        1 => vec(any::<u8>(), 1..24),
    ];
    (stun_req_magic(), 64usize..=120, any::<u8>(), any::<u16>(), trailer).prop_map(|(mut r, words, fill, pos, trailer)| {
        let p = pick(pos, r.attrs.len() + 1);
        r.attrs.insert(p, StunAttr { typ: 0x8022, value: Hex(vec![fill; words * 4]) });
        r.trailer = Hex(trailer);
        r
    })
})();
    inner.boxed()
}

pub fn stun_req() -> BoxedStrategy<StunReq> {
    let inner = (|| {
    prop_oneof![2 => stun_req_magic(), 2 => stun_req_magic_big(), 2 => stun_req_classic()]
})();
    inner.boxed()
}

/// RFC 5389 request whose attribute values have lengths that are not multiples of 4 (each value
/// is followed by padding up to the next 32-bit boundary, as the RFC prescribes)
#[derive(Clone, Debug, Serialize, Deserialize, PartialEq, Hash)]
pub struct StunPadded {
    pub id: [u8; 16],
    pub attrs: Vec<StunAttr>,
}

impl StunPadded {
    /// number of CHANGE-REQUEST attributes with the change-port bit
    pub fn change_port_count(&self) -> usize {
        self.attrs.iter().filter(|a| a.typ == 3 && a.value.len() >= 4 && (be32(&a.value, 0) & 2) != 0).count()
    }
    pub fn bytes(&self) -> Vec<u8> {
        let mut ab = Vec::new();
        for a in &self.attrs {
            ab.extend_from_slice(&a.typ.to_be_bytes());
            ab.extend_from_slice(&(a.value.len() as u16).to_be_bytes());
            ab.extend_from_slice(&a.value);
            while ab.len() % 4 != 0 {
                ab.push(0);
            }
        }
        let mut v = vec![0x00, 0x01];
        v.extend_from_slice(&(ab.len() as u16).to_be_bytes());
        let mut id = self.id;
        id[0..4].copy_from_slice(&[0x21, 0x12, 0xa4, 0x42]);
        v.extend_from_slice(&id);
        v.extend_from_slice(&ab);
        v
    }
}

pub fn stun_padded() -> impl Strategy<Value = StunPadded> {
    (any::<[u8; 16]>(), vec((prop_oneof![2 => prop::sample::select(vec![0x0006u16, 0x8022, 0x0014, 0x0015, 0xc001]), 1 => prop::sample::select(STUN_ATTR_REGISTRY.to_vec()).prop_map(|(t, _)| t)], vec(any::<u8>(), 1..200)), 1..4), any::<u8>(), prop::option::weighted(0.4, (stun_change_request(), any::<u16>()))).prop_map(|(id, at, fill, cr)| {
        let mut attrs: Vec<StunAttr> = at.into_iter().map(|(typ, value)| StunAttr { typ, value: Hex(value) }).collect();
        if let Some((c, pos)) = cr {
            let p = pick(pos, attrs.len() + 1);
            attrs.insert(p, c);
        }
        // make sure the message is longer than 255 bytes (outside the shadowing divergence)
        attrs.push(StunAttr { typ: 0x8022, value: Hex(vec![fill; 257]) });
        StunPadded { id, attrs }
    })
}

// ---------------------------------------------------------------------------------------
// DNS

#[derive(Clone, Debug, Serialize, Deserialize, PartialEq, Hash)]
pub struct DnsQuestion {
    pub labels: Vec<Hex>,
    pub qtype: u16,
    pub qclass: u16,
}

impl DnsQuestion {
    pub fn name_bytes(&self) -> Vec<u8> {
        let mut v = Vec::new();
        for l in &self.labels {
            v.push(l.len() as u8);
            v.extend_from_slice(l);
        }
        v.push(0);
        v
    }
    pub fn bytes(&self) -> Vec<u8> {
        let mut v = self.name_bytes();
        v.extend_from_slice(&self.qtype.to_be_bytes());
        v.extend_from_slice(&self.qclass.to_be_bytes());
        v
    }
    pub fn has_nul_in_label(&self) -> bool {
        self.labels.iter().any(|l| l.contains(&0))
    }
}

#[derive(Clone, Debug, Serialize, Deserialize, PartialEq, Hash)]
pub struct DnsQuery {
    pub id: u16,
    pub flags: u16,
    pub questions: Vec<DnsQuestion>,
}

impl DnsQuery {
    pub fn bytes(&self) -> Vec<u8> {
        let mut v = Vec::new();
        v.extend_from_slice(&self.id.to_be_bytes());
        v.extend_from_slice(&self.flags.to_be_bytes());
        v.extend_from_slice(&(self.questions.len() as u16).to_be_bytes());
        v.extend_from_slice(&[0; 6]);
        for q in &self.questions {
            v.extend_from_slice(&q.bytes());
        }
        v
    }
}

fn dns_label() -> impl Strategy<Value = Hex> {
    prop_oneof![
        14 => "[a-z0-9-]{1,20}".prop_map(|s| Hex(s.into_bytes())),
        2 => "[a-z0-9]{21,63}".prop_map(|s| Hex(s.into_bytes())),
        5 => vec(1u8..=255, 1..20).prop_map(Hex),
        1 => vec(prop::sample::select(vec![0u8, b'a', b'b', 0xc0]), 1..8).prop_map(Hex),
        2 => utf8_text(8, 63).prop_map(Hex),
    ]
}

/// names whose wire encoding is at or just below the 255-octet limit
fn dns_long_name() -> impl Strategy<Value = DnsQuestion> {
    (248usize..=255, any::<u8>()).prop_map(|(total, c)| {
        // total = sum(1 + len) + 1
        let mut left = total - 1;
        let mut labels = Vec::new();
        while left > 0 {
            let l = (left - 1).min(63);
            if l == 0 {
                break;
            }
            labels.push(Hex(vec![b'a' + (c.wrapping_add(labels.len() as u8) % 26); l]));
            left -= 1 + l;
        }
        DnsQuestion { labels, qtype: 1, qclass: 1 }
    })
}

/// special-use and well-known names (RFC 6761 / 6762 / 7686 / 8375, reverse zones, the names
/// scanners ask for), in mixed case, optionally below further labels
fn dns_special_name() -> impl Strategy<Value = DnsQuestion> {
    let names = vec![
        "localhost", "localhost.localdomain", "local", "invalid", "test", "example", "example.com", "example.net", "example.org", "onion", "home.arpa", "lan", "internal",
        "1.0.0.127.in-addr.arpa", "10.in-addr.arpa", "254.169.in-addr.arpa", "in-addr.arpa", "ip6.arpa", "8.e.f.ip6.arpa", "arpa",
        "version.bind", "hostname.bind", "id.server", "authors.bind", "wpad", "isatap", "_services._dns-sd._udp.local", "_http._tcp.local", "ipv4only.arpa",
        "com", "net", "org", "www.google.com", "a.root-servers.net", "resolver1.opendns.com", "dnsscan.shadowserver.org", "openresolver.com",
    ];
    (prop::sample::select(names), vec("[a-z0-9-]{1,12}", 0..=2), any::<u64>()).prop_map(|(n, pre, casebits)| {
        let mut labels: Vec<Hex> = pre.into_iter().map(|s| Hex(s.into_bytes())).collect();
        let mut k = 0;
        for l in n.split('.') {
            let b: Vec<u8> = l.bytes().map(|c| { k += 1; if (casebits >> (k % 64)) & 1 == 1 && k % 3 == 0 { c.to_ascii_uppercase() } else { c } }).collect();
            labels.push(Hex(b));
        }
        DnsQuestion { labels, qtype: 1, qclass: 1 }
    })
}

pub fn dns_question_a() -> impl Strategy<Value = DnsQuestion> {
    prop_oneof![10 => dns_question_mixed(), 1 => dns_long_name(), 3 => dns_special_name()]
}

fn dns_question_mixed() -> impl Strategy<Value = DnsQuestion> {
    vec(dns_label(), 0..=5).prop_map(|mut labels| {
        // total name length <= 255
        let mut tot = 1;
        let mut keep = Vec::new();
        for l in labels.drain(..) {
            if tot + 1 + l.len() > 255 {
                break;
            }
            tot += 1 + l.len();
            keep.push(l);
        }
        DnsQuestion { labels: keep, qtype: 1, qclass: 1 }
    })
}

/// QR=0, every other header bit arbitrary, k IN/A questions, no other sections.
pub fn dns_query(maxq: usize) -> BoxedStrategy<DnsQuery> {
    let inner = (|| {
    let mixed = (any::<u16>(), any::<u16>(), vec(dns_question_a(), 0..=maxq)).prop_map(|(id, flags, questions)| DnsQuery { id, flags: flags & 0x7fff, questions });
    // large messages: the maximum number of questions, each with a name at the length limit
    let big = (any::<u16>(), any::<u16>(), vec(dns_long_name(), maxq.max(1)..=maxq.max(1))).prop_map(|(id, flags, questions)| DnsQuery { id, flags: flags & 0x7fff, questions });
    prop_oneof![30 => mixed, 1 => big]
})();
    inner.boxed()
}

// ---------------------------------------------------------------------------------------
// ONC-RPC

#[derive(Clone, Debug, Serialize, Deserialize, PartialEq, Hash)]
pub struct RpcCall {
    pub xid: u32,
    pub rpcvers_low: u8,
    pub program: u32,
    pub version: u32,
    pub procedure: u32,
    pub cred_flavor: u32,
    pub cred: Hex,
    pub verf_flavor: u32,
    pub verf: Hex,
    pub args: Hex,
}

impl RpcCall {
    /// the call message without record mark (UDP form); XDR opaque padding applied
    pub fn msg(&self) -> Vec<u8> {
        self.msg_and_end().0
    }
    /// (bytes, offset one past the verifier = end of the call header)
    pub fn msg_and_end(&self) -> (Vec<u8>, usize) {
        let mut v = Vec::new();
        v.extend_from_slice(&self.xid.to_be_bytes());
        v.extend_from_slice(&0u32.to_be_bytes());
        v.extend_from_slice(&(self.rpcvers_low as u32).to_be_bytes());
        v.extend_from_slice(&self.program.to_be_bytes());
        v.extend_from_slice(&self.version.to_be_bytes());
        v.extend_from_slice(&self.procedure.to_be_bytes());
        v.extend_from_slice(&self.cred_flavor.to_be_bytes());
        v.extend_from_slice(&(self.cred.len() as u32).to_be_bytes());
        v.extend_from_slice(&self.cred);
        while v.len() % 4 != 0 {
            v.push(0);
        }
        v.extend_from_slice(&self.verf_flavor.to_be_bytes());
        v.extend_from_slice(&(self.verf.len() as u32).to_be_bytes());
        v.extend_from_slice(&self.verf);
        while v.len() % 4 != 0 {
            v.push(0);
        }
        let end = v.len();
        v.extend_from_slice(&self.args);
        (v, end)
    }
    /// TCP form: one record, last-fragment bit set
    pub fn record(&self) -> Vec<u8> {
        let m = self.msg();
        let mut v = ((m.len() as u32) | 0x8000_0000).to_be_bytes().to_vec();
        v.extend_from_slice(&m);
        v
    }
    pub fn record_and_end(&self) -> (Vec<u8>, usize) {
        let (m, e) = self.msg_and_end();
        let mut v = ((m.len() as u32) | 0x8000_0000).to_be_bytes().to_vec();
        v.extend_from_slice(&m);
        (v, e + 4)
    }
    pub fn aligned(&self) -> bool {
        self.cred.len() % 4 == 0 && self.verf.len() % 4 == 0
    }
}

/// AUTH_SYS (flavor 1) credential bodies: stamp, machine name (length + padded bytes), uid, gid,
/// auxiliary gids — consistent, or with a machine-name length that disagrees with the bytes
/// present (one past the end, exactly the rest, huge), or cut short after any field
pub fn auth_sys_cred() -> impl Strategy<Value = Vec<u8>> {
    ("[a-z0-9.-]{0,24}", any::<[u32; 3]>(), vec(any::<u32>(), 0..5), prop_oneof![5 => Just(0i32), 1 => 1i32..=8, 1 => -4i32..0, 1 => Just(1000i32), 1 => Just(i32::MAX)], prop::option::weighted(0.3, any::<u16>())).prop_map(|(name, w, gids, lie, cut)| {
        let mut v = w[0].to_be_bytes().to_vec();
        let nl = (name.len() as i64 + lie as i64).max(0) as u32;
        v.extend_from_slice(&nl.to_be_bytes());
        v.extend_from_slice(name.as_bytes());
        while v.len() % 4 != 0 {
            v.push(0);
        }
        v.extend_from_slice(&w[1].to_be_bytes());
        v.extend_from_slice(&w[2].to_be_bytes());
        v.extend_from_slice(&(gids.len() as u32).to_be_bytes());
        for g in gids {
            v.extend_from_slice(&g.to_be_bytes());
        }
        if let Some(c) = cut {
            let k = pick(c, v.len() + 1);
            v.truncate(k);
        }
        v
    })
}

pub fn rpc_call() -> BoxedStrategy<RpcCall> {
    let inner = (|| {
    (rpc_call_plain(), prop::option::weighted(0.25, auth_sys_cred())).prop_map(|(mut r, a)| {
        if let Some(a) = a {
            r.cred_flavor = 1;
            r.cred = Hex(a);
        }
        r
    })
})();
    inner.boxed()
}

fn rpc_call_plain() -> impl Strategy<Value = RpcCall> {
    (
        (any::<u32>(), prop_oneof![3 => Just(2u8), 1 => any::<u8>()]),
        prop_oneof![4 => Just(100000u32), 2 => 99840u32..=100095, 1 => Just(100003u32), 1 => Just(100005u32)],
        prop_oneof![3 => 2u32..=4, 2 => 0u32..=6, 1 => any::<u32>(), 1 => Just(104316u32)],
        prop_oneof![3 => 0u32..=5, 2 => 0u32..=255],
        (prop_oneof![3 => Just(0u32), 1 => Just(1u32), 1 => any::<u32>()], prop_oneof![8 => (0usize..=16).prop_map(|w| w * 4), 2 => 0usize..=64, 1 => (64usize..=80).prop_map(|w| w * 4), 1 => 255usize..=300, 1 => 396usize..=400], any::<[u8; 32]>(), any::<[u8; 32]>()),
        // verifier: usually AUTH_NONE / empty; lengths up to the RFC 5531 limit of 400 bytes
        (prop_oneof![4 => Just(0u32), 1 => any::<u32>()], prop_oneof![10 => Just(0usize), 2 => (1usize..=8).prop_map(|w| w * 4), 2 => 1usize..=32, 1 => (16usize..=100).prop_map(|w| w * 4), 1 => 255usize..=300, 1 => 396usize..=400], any::<[u8; 32]>()),
        prop_oneof![2 => Just(Hex(vec![])), 1 => vec(any::<u8>(), 0..40).prop_map(Hex), 1 => any::<[u8; 16]>().prop_map(|a| Hex(a.to_vec()))],
    )
        .prop_map(|((xid, rpcvers_low), program, version, procedure, (cred_flavor, cl, ca, cb), (verf_flavor, vl, va), args)| {
            let mut cred = ca.to_vec();
            cred.extend_from_slice(&cb);
            while cred.len() < cl {
                let k = cred.len();
                cred.push(cb[k % 32] ^ (k as u8));
            }
            cred.truncate(cl);
            let mut verf = va.to_vec();
            while verf.len() < vl {
                let k = verf.len();
                verf.push(va[k % 32] ^ (k as u8));
            }
            verf.truncate(vl);
            RpcCall { xid, rpcvers_low, program, version, procedure, cred_flavor, cred: Hex(cred), verf_flavor, verf: Hex(verf), args }
        })
}

// ---------------------------------------------------------------------------------------
// SMB

pub const SMB1_KNOWN_DIALECTS: [&str; 3] = ["NT LM 0.12", "SMB 2.???", "SMB 2.002"];

#[derive(Clone, Debug, Serialize, Deserialize, PartialEq, Hash)]
pub struct Smb1Hdr {
    pub command: u8,
    pub status: u32,
    pub flags: u8,
    pub flags2: u16,
    pub pid_high: u16,
    pub signature: [u8; 8],
    pub tid: u16,
    pub pid_low: u16,
    pub uid: u16,
    pub mid: u16,
}

impl Smb1Hdr {
    pub fn bytes(&self) -> Vec<u8> {
        let mut v = b"\xffSMB".to_vec();
        v.push(self.command);
        v.extend_from_slice(&self.status.to_le_bytes());
        v.push(self.flags);
        v.extend_from_slice(&self.flags2.to_le_bytes());
        v.extend_from_slice(&self.pid_high.to_le_bytes());
        v.extend_from_slice(&self.signature);
        v.extend_from_slice(&[0, 0]);
        v.extend_from_slice(&self.tid.to_le_bytes());
        v.extend_from_slice(&self.pid_low.to_le_bytes());
        v.extend_from_slice(&self.uid.to_le_bytes());
        v.extend_from_slice(&self.mid.to_le_bytes());
        v
    }
}

/// correlation ids: arbitrary, and the values clients really start with / reserve (0, 1, all ones)
fn id16() -> impl Strategy<Value = u16> {
    prop_oneof![5 => any::<u16>(), 1 => Just(0u16), 1 => Just(1u16), 1 => Just(0xffffu16), 1 => Just(0xfffeu16)]
}
fn id64() -> impl Strategy<Value = u64> {
    prop_oneof![5 => any::<u64>(), 2 => Just(0u64), 1 => Just(1u64), 1 => Just(u64::MAX), 1 => any::<u32>().prop_map(|x| x as u64)]
}

pub fn smb1_hdr(command: u8) -> impl Strategy<Value = Smb1Hdr> {
    (any::<u32>(), any::<u8>(), any::<u16>(), id16(), any::<[u8; 8]>(), (id16(), id16(), id16(), id16()).prop_map(|(a, b, c, d)| [a, b, c, d])).prop_map(move |(status, flags, flags2, pid_high, signature, ids)| Smb1Hdr {
        command,
        status,
        flags: flags & 0x7f,
        flags2,
        pid_high,
        signature,
        tid: ids[0],
        pid_low: ids[1],
        uid: ids[2],
        mid: ids[3],
    })
}

pub fn nbt(payload: &[u8]) -> Vec<u8> {
    let l = payload.len();
    let mut v = vec![0u8, ((l >> 16) & 1) as u8, (l >> 8) as u8, l as u8];
    v.extend_from_slice(payload);
    v
}

#[derive(Clone, Debug, Serialize, Deserialize, PartialEq, Hash)]
pub enum SmbReq {
    Smb1Negotiate { hdr: Smb1Hdr, dialects: Vec<String> },
    Smb1SessionSetup { hdr: Smb1Hdr, blob: Hex, words: [u16; 6], caps: u32, trailer: Hex },
    Smb2Negotiate { hdr: Smb2Hdr, dialects: Vec<u16>, secmode: u16, caps: u32, guid: [u8; 16], trailer: Hex },
    Smb2SessionSetup { hdr: Smb2Hdr, blob: Hex, flags: u8, secmode: u8, caps: u32, channel: u32, prev: u64 },
}

#[derive(Clone, Debug, Serialize, Deserialize, PartialEq, Hash)]
pub struct Smb2Hdr {
    pub credit_charge: u16,
    pub status: u32,
    pub command: u16,
    pub credits: u16,
    pub flags: u32,
    pub next_command: u32,
    pub message_id: u64,
    pub async_id: u64,
    pub session_id: u64,
    pub signature: [u8; 16],
}

impl Smb2Hdr {
    pub fn bytes(&self) -> Vec<u8> {
        let mut v = b"\xfeSMB".to_vec();
        v.extend_from_slice(&64u16.to_le_bytes());
        v.extend_from_slice(&self.credit_charge.to_le_bytes());
        v.extend_from_slice(&self.status.to_le_bytes());
        v.extend_from_slice(&self.command.to_le_bytes());
        v.extend_from_slice(&self.credits.to_le_bytes());
        v.extend_from_slice(&self.flags.to_le_bytes());
        v.extend_from_slice(&self.next_command.to_le_bytes());
        v.extend_from_slice(&self.message_id.to_le_bytes());
        v.extend_from_slice(&self.async_id.to_le_bytes());
        v.extend_from_slice(&self.session_id.to_le_bytes());
        v.extend_from_slice(&self.signature);
        v
    }
}

pub fn smb2_hdr(command: u16) -> impl Strategy<Value = Smb2Hdr> {
    (any::<u16>(), prop_oneof![2 => Just(0u32), 1 => any::<u32>()], any::<u16>(), any::<u32>(), prop_oneof![2 => Just(0u32), 1 => any::<u32>()], (id64(), id64(), id64()).prop_map(|(a, b, c)| [a, b, c]), any::<[u8; 16]>()).prop_map(move |(credit_charge, status, credits, flags, next_command, ids, signature)| Smb2Hdr {
        credit_charge,
        status,
        command,
        credits,
        flags: flags & !1,
        next_command,
        message_id: ids[0],
        async_id: ids[1],
        session_id: ids[2],
        signature,
    })
}

impl SmbReq {
    /// SMB message without NetBIOS framing
    pub fn smb_bytes(&self) -> Vec<u8> {
        match self {
            SmbReq::Smb1Negotiate { hdr, dialects } => {
                let mut v = hdr.bytes();
                let mut d = Vec::new();
                for s in dialects {
                    d.push(2u8);
                    d.extend_from_slice(s.as_bytes());
                    d.push(0);
                }
                v.push(0); // WordCount
                v.extend_from_slice(&(d.len() as u16).to_le_bytes());
                v.extend_from_slice(&d);
                v
            }
            SmbReq::Smb1SessionSetup { hdr, blob, words, caps, trailer } => {
                let mut v = hdr.bytes();
                v.push(12); // WordCount
                v.push(0xff); // AndXCommand
                v.push(0); // AndXReserved
                v.extend_from_slice(&words[0].to_le_bytes()); // AndXOffset
                v.extend_from_slice(&words[1].to_le_bytes()); // MaxBufferSize
                v.extend_from_slice(&words[2].to_le_bytes()); // MaxMpxCount
                v.extend_from_slice(&words[3].to_le_bytes()); // VcNumber
                v.extend_from_slice(&(((words[4] as u32) << 16) | words[5] as u32).to_le_bytes()); // SessionKey
                v.extend_from_slice(&(blob.len() as u16).to_le_bytes()); // SecurityBlobLength
                v.extend_from_slice(&[0; 4]); // Reserved
                v.extend_from_slice(&caps.to_le_bytes());
                v.extend_from_slice(&((blob.len() + trailer.len()) as u16).to_le_bytes()); // ByteCount
                v.extend_from_slice(blob);
                v.extend_from_slice(trailer);
                v
            }
            SmbReq::Smb2Negotiate { hdr, dialects, secmode, caps, guid, trailer } => {
                let mut v = hdr.bytes();
                v.extend_from_slice(&36u16.to_le_bytes());
                v.extend_from_slice(&(dialects.len() as u16).to_le_bytes());
                v.extend_from_slice(&secmode.to_le_bytes());
                v.extend_from_slice(&[0, 0]);
                v.extend_from_slice(&caps.to_le_bytes());
                v.extend_from_slice(guid);
                v.extend_from_slice(&[0; 8]);
                for d in dialects {
                    v.extend_from_slice(&d.to_le_bytes());
                }
                v.extend_from_slice(trailer);
                v
            }
            SmbReq::Smb2SessionSetup { hdr, blob, flags, secmode, caps, channel, prev } => {
                let mut v = hdr.bytes();
                v.extend_from_slice(&25u16.to_le_bytes());
                v.push(*flags);
                v.push(*secmode);
                v.extend_from_slice(&caps.to_le_bytes());
                v.extend_from_slice(&channel.to_le_bytes());
                v.extend_from_slice(&0x58u16.to_le_bytes());
                v.extend_from_slice(&(blob.len() as u16).to_le_bytes());
                v.extend_from_slice(&prev.to_le_bytes());
                v.extend_from_slice(blob);
                v
            }
        }
    }
    pub fn bytes(&self) -> Vec<u8> {
        nbt(&self.smb_bytes())
    }
    pub fn is_smb1(&self) -> bool {
        matches!(self, SmbReq::Smb1Negotiate { .. } | SmbReq::Smb1SessionSetup { .. })
    }
    pub fn has_dup_dialects(&self) -> bool {
        match self {
            SmbReq::Smb2Negotiate { dialects, .. } => {
                let mut s = dialects.clone();
                s.sort();
                s.dedup();
                s.len() != dialects.len()
            }
            _ => false,
        }
    }
}

pub const SMB2_SUPPORTED: [u16; 7] = [0x0202, 0x0210, 0x02ff, 0x0300, 0x0302, 0x0310, 0x0311];

fn smb1_dialect_name() -> impl Strategy<Value = String> {
    prop_oneof![
        3 => prop::sample::select(vec!["NT LM 0.12", "SMB 2.???", "SMB 2.002"]).prop_map(|s| s.to_string()),
        3 => prop::sample::select(vec!["PC NETWORK PROGRAM 1.0", "LANMAN1.0", "Windows for Workgroups 3.1a", "LM1.2X002", "LANMAN2.1", "NT LANMAN 1.0"]).prop_map(|s| s.to_string()),
        1 => "[A-Za-z0-9 .?]{1,16}",
    ]
}

/// security blobs as clients send them: raw NTLMSSP messages (NEGOTIATE 1, CHALLENGE 2,
/// AUTHENTICATE 3, other type numbers), the same inside a SPNEGO negTokenInit / negTokenResp
/// wrapper, Kerberos-looking tokens, arbitrary bytes
pub fn security_blob() -> BoxedStrategy<Vec<u8>> {
    let inner = (|| {
    let ntlm = (prop_oneof![3 => Just(1u32), 1 => Just(2u32), 4 => Just(3u32), 1 => any::<u32>()], vec(any::<u8>(), 0..200)).prop_map(|(t, rest)| {
        let mut v = b"NTLMSSP\0".to_vec();
        v.extend_from_slice(&t.to_le_bytes());
        v.extend_from_slice(&rest);
        v
    });
    let ntlm2 = (prop_oneof![3 => Just(1u32), 1 => Just(2u32), 4 => Just(3u32), 1 => any::<u32>()], vec(any::<u8>(), 0..120)).prop_map(|(t, rest)| {
        let mut v = b"NTLMSSP\0".to_vec();
        v.extend_from_slice(&t.to_le_bytes());
        v.extend_from_slice(&rest);
        v
    });
    prop_oneof![
        3 => vec(any::<u8>(), 1..300),
        3 => ntlm,
        2 => (ntlm2, any::<bool>()).prop_map(|(n, init)| {
            // approximate DER framing; lengths are consistent for short tokens
            let mut v = if init {
                let mech: &[u8] = &[0x30, 0x0c, 0x06, 0x0a, 0x2b, 0x06, 0x01, 0x04, 0x01, 0x82, 0x37, 0x02, 0x02, 0x0a];
                let mut inner = vec![0xa0, mech.len() as u8];
                inner.extend_from_slice(mech);
                inner.extend_from_slice(&[0xa2, (n.len() + 2).min(127) as u8, 0x04, n.len().min(127) as u8]);
                inner.extend_from_slice(&n);
                let mut v = vec![0x60, 0x81, (inner.len() + 12).min(255) as u8, 0x06, 0x06, 0x2b, 0x06, 0x01, 0x05, 0x05, 0x02, 0xa0, 0x81, (inner.len() + 3).min(255) as u8, 0x30, 0x81, inner.len().min(255) as u8];
                v.extend_from_slice(&inner);
                v
            } else {
                let mut v = vec![0xa1, 0x81, (n.len() + 7).min(255) as u8, 0x30, 0x81, (n.len() + 4).min(255) as u8, 0xa2, 0x81, (n.len() + 1).min(255) as u8, 0x04, 0x81, n.len().min(255) as u8];
                v.extend_from_slice(&n);
                v
            };
            v.truncate(299);
            v
        }),
        1 => vec(any::<u8>(), 0..60).prop_map(|r| { let mut v = vec![0x60, 0x82, 0x01, 0x00, 0x06, 0x09, 0x2a, 0x86, 0x48, 0x86, 0xf7, 0x12, 0x01, 0x02, 0x02, 0x01, 0x00, 0x6e]; v.extend_from_slice(&r); v }),
    ]
})();
    inner.boxed()
}

pub fn smb_req() -> BoxedStrategy<SmbReq> {
    let inner = (|| {
    prop_oneof![
        (smb1_hdr(0x72), vec(smb1_dialect_name(), 1..=8)).prop_map(|(hdr, dialects)| SmbReq::Smb1Negotiate { hdr, dialects }),
        (smb1_hdr(0x73), security_blob(), any::<[u16; 6]>(), any::<u32>(), vec(any::<u8>(), 0..24)).prop_map(|(hdr, blob, words, caps, trailer)| SmbReq::Smb1SessionSetup { hdr, blob: Hex(blob), words, caps, trailer: Hex(trailer) }),
        (smb2_hdr(0), prop_oneof![12 => vec(prop_oneof![5 => prop::sample::select(SMB2_SUPPORTED.to_vec()), 2 => any::<u16>()], 1..=8), 1 => Just(vec![])], any::<u16>(), any::<u32>(), any::<[u8; 16]>(), prop_oneof![3 => vec(any::<u8>(), 0..24), 1 => (prop::sample::select(SMB2_SUPPORTED.to_vec()), vec(any::<u8>(), 0..8)).prop_map(|(d, mut t)| { let mut v = d.to_le_bytes().to_vec(); v.append(&mut t); v })])
            .prop_map(|(hdr, dialects, secmode, caps, guid, trailer)| SmbReq::Smb2Negotiate { hdr, dialects, secmode, caps, guid, trailer: Hex(trailer) }),
        (smb2_hdr(1), security_blob(), any::<u8>(), any::<u8>(), any::<u32>(), any::<u32>(), any::<u64>())
            .prop_map(|(hdr, blob, flags, secmode, caps, channel, prev)| SmbReq::Smb2SessionSetup { hdr, blob: Hex(blob), flags, secmode, caps, channel, prev }),
    ]
})();
    inner.boxed()
}

// ---------------------------------------------------------------------------------------
// one pool of "some application request"

#[derive(Clone, Debug, Serialize, Deserialize, PartialEq, Hash)]
pub enum AppReq {
    Http(HttpReq),
    Ssh(SshBanner),
    Ghost(Hex),
    Stun(StunReq),
    Dns(DnsQuery),
    Rpc(RpcCall),
    Smb(SmbReq),
    Garbage(Hex),
}

impl AppReq {
    pub fn kind(&self) -> &'static str {
        match self {
            AppReq::Http(_) => "http",
            AppReq::Ssh(_) => "ssh",
            AppReq::Ghost(_) => "ghost",
            AppReq::Stun(_) => "stun",
            AppReq::Dns(_) => "dns",
            AppReq::Rpc(_) => "rpc",
            AppReq::Smb(_) => "smb",
            AppReq::Garbage(_) => "garbage",
        }
    }
    /// bytes as sent over the given transport (RPC has a record mark over TCP)
    pub fn bytes(&self, tcp: bool) -> Vec<u8> {
        match self {
            AppReq::Http(h) => h.bytes(),
            AppReq::Ssh(s) => s.bytes(),
            AppReq::Ghost(g) => g.0.clone(),
            AppReq::Stun(s) => s.bytes(),
            AppReq::Dns(d) => d.bytes(),
            AppReq::Rpc(r) => {
                if tcp {
                    r.record()
                } else {
                    r.msg()
                }
            }
            AppReq::Smb(s) => s.bytes(),
            AppReq::Garbage(g) => g.0.clone(),
        }
    }
}

pub fn app_req() -> BoxedStrategy<AppReq> {
    let inner = (|| {
    prop_oneof![
        3 => http_req().prop_map(AppReq::Http),
        2 => ssh_banner().prop_map(AppReq::Ssh),
        1 => ghost_req().prop_map(AppReq::Ghost),
        3 => stun_req().prop_map(AppReq::Stun),
        3 => dns_query(4).prop_map(AppReq::Dns),
        3 => rpc_call().prop_map(AppReq::Rpc),
        3 => smb_req().prop_map(AppReq::Smb),
        1 => vec(any::<u8>(), 0..100).prop_map(|v| AppReq::Garbage(Hex(v))),
    ]
})();
    inner.boxed()
}
