// Normaliser for wall-clock fields (C08, C11, C19): HTTP `Date:` header value, SMB1
// Negotiate `SystemTime`, SMB2 Negotiate `SystemTime` / `ServerStartTime`. Nothing else is masked.

use super::codec::*;

pub fn normalise_app(p: &[u8]) -> Vec<u8> {
    let mut v = p.to_vec();
    if v.starts_with(b"HTTP/") {
        // mask the value of every Date: header line in the header block
        let mut i = 0;
        while i < v.len() {
            let line_end = v[i..].iter().position(|b| *b == b'\n').map(|k| i + k).unwrap_or(v.len());
            if line_end == i || (line_end == i + 1 && v[i] == b'\r') {
                break; // end of headers
            }
            if v[i..line_end].len() >= 5 && v[i..i + 5].eq_ignore_ascii_case(b"date:") {
                for b in v[i + 5..line_end].iter_mut() {
                    *b = b'#';
                }
            }
            i = line_end + 1;
        }
        // the masked value may legitimately change length (day/month names do not, but be safe): collapse
        let mut out = Vec::with_capacity(v.len());
        let mut prev_hash = false;
        for b in v {
            if b == b'#' {
                if !prev_hash {
                    out.push(b);
                }
                prev_hash = true;
            } else {
                prev_hash = false;
                out.push(b);
            }
        }
        return out;
    }
    if v.len() >= 4 + 32 + 1 + 34 && v[0] == 0 && &v[4..8] == b"\xffSMB" && v[8] == 0x72 && v[4 + 32] == 17 {
        for b in v[60..68].iter_mut() {
            *b = 0;
        }
        return v;
    }
    if v.len() >= 4 + 64 + 64 && v[0] == 0 && &v[4..8] == b"\xfeSMB" && v[4 + 12] == 0 && v[4 + 13] == 0 && v[4 + 64] == 65 {
        for b in v[108..124].iter_mut() {
            *b = 0;
        }
        return v;
    }
    v
}

/// Normalise a whole reply frame: application payload masked, transport checksum zeroed when
/// the payload was changed by masking (the checksum covers the masked bytes).
pub fn normalise_frame(f: &[u8]) -> Vec<u8> {
    let d = match decode_reply(f) {
        Ok(d) => d,
        Err(_) => return f.to_vec(),
    };
    let app = match d.app() {
        Some(a) if !a.is_empty() => a.to_vec(),
        _ => return f.to_vec(),
    };
    let n = normalise_app(&app);
    if n == app {
        return f.to_vec();
    }
    // rebuild: headers with the fields that depend on the masked bytes zeroed (transport
    // checksum, IP length fields and IPv4 header checksum, UDP length) + normalised payload
    let hdr_len = f.len() - app.len();
    let mut out = f[..hdr_len].to_vec();
    let ip_off = 14;
    let v4 = d.ethertype == ET_V4;
    let l4_off = if v4 { ip_off + 20 } else { ip_off + 40 };
    let mut zero = |a: usize, n: usize| {
        for k in a..a + n {
            if k < out.len() {
                out[k] = 0;
            }
        }
    };
    if v4 {
        zero(ip_off + 2, 2);
        zero(ip_off + 10, 2);
    } else {
        zero(ip_off + 4, 2);
    }
    if let Some(ip) = d.ip() {
        if ip.proto == P_TCP {
            zero(l4_off + 16, 2);
        } else {
            zero(l4_off + 4, 4);
        }
    }
    out.extend_from_slice(&n);
    out
}
