// Engine shared by all properties: statistics, failures / known findings, the proptest
// driver (E1), worker result files, evidence merging.

use std::cell::RefCell;
use std::collections::{BTreeMap, BTreeSet, HashSet};
use std::fmt::Debug;
use std::hash::Hash;

use proptest::strategy::{Strategy, ValueTree};
use proptest::test_runner::{Config, RngAlgorithm, TestCaseError, TestError, TestRng, TestRunner};
use serde::{Deserialize, Serialize};
use serde_json::{json, Value};

use super::util::*;

#[derive(Clone, Copy, Debug, PartialEq, Eq)]
pub enum Tier {
    Quick,
    Thorough,
}

impl Tier {
    pub fn name(&self) -> &'static str {
        match self {
            Tier::Quick => "quick",
            Tier::Thorough => "thorough",
        }
    }
    /// pick(q, t)
    pub fn n(&self, q: u64, t: u64) -> u64 {
        match self {
            Tier::Quick => q,
            Tier::Thorough => t,
        }
    }
}

#[derive(Clone, Debug, Serialize, Deserialize)]
pub struct Failure {
    /// identification of the failing input class (known-findings key), if the oracle could
    /// classify it; None = unclassified (always a violation)
    pub key: Option<String>,
    pub msg: String,
}

impl Failure {
    pub fn new(msg: impl Into<String>) -> Failure {
        Failure { key: None, msg: msg.into() }
    }
    pub fn keyed(key: impl Into<String>, msg: impl Into<String>) -> Failure {
        Failure { key: Some(key.into()), msg: msg.into() }
    }
}

pub type Check = Result<(), Failure>;

#[macro_export]
macro_rules! vfail {
    ($($arg:tt)*) => { return Err($crate::vf::engine::Failure::new(format!($($arg)*))) };
}

#[macro_export]
macro_rules! vensure {
    ($cond:expr, $($arg:tt)*) => { if !($cond) { return Err($crate::vf::engine::Failure::new(format!($($arg)*))); } };
}

#[derive(Clone, Debug, Serialize, Deserialize)]
pub struct Found {
    pub case: Value,
    pub failure: Failure,
    pub stream: String,
}

#[derive(Default, Serialize, Deserialize)]
pub struct Stats {
    pub evaluations: u64,
    pub frames: u64,
    #[serde(skip)]
    pub nontrivial: HashSet<u64>,
    pub classes: BTreeMap<String, u64>,
    pub excluded: BTreeMap<String, u64>,
    pub known_seen: BTreeMap<String, (u64, String)>,
    pub samples: Vec<Value>,
    pub extra: BTreeMap<String, Value>,
    pub exhaustive_parts: Vec<String>,
    pub found: Vec<Found>,
    pub infra_errors: Vec<String>,
    #[serde(skip)]
    pub frozen: bool,
    #[serde(skip)]
    pub known: BTreeSet<String>,
    #[serde(skip)]
    pub max_samples: usize,
}

impl Stats {
    pub fn new(known: BTreeSet<String>) -> Stats {
        Stats { known, max_samples: 4, ..Default::default() }
    }
    pub fn class(&mut self, c: &str) {
        if !self.frozen {
            *self.classes.entry(c.to_string()).or_insert(0) += 1;
        }
    }
    pub fn classn(&mut self, c: &str, n: u64) {
        if !self.frozen {
            *self.classes.entry(c.to_string()).or_insert(0) += n;
        }
    }
    pub fn exclude(&mut self, key: &str) {
        if !self.frozen {
            *self.excluded.entry(key.to_string()).or_insert(0) += 1;
        }
    }
    pub fn eval(&mut self) {
        if !self.frozen {
            self.evaluations += 1;
        }
    }
    pub fn frames(&mut self, n: u64) {
        if !self.frozen {
            self.frames += n;
        }
    }
    pub fn nontrivial_hash(&mut self, h: u64) {
        if !self.frozen {
            self.nontrivial.insert(h);
        }
    }
    pub fn nontrivial<T: Hash>(&mut self, t: &T) {
        if !self.frozen {
            self.nontrivial.insert(hash_of(t));
        }
    }
    pub fn sample(&mut self, v: impl FnOnce() -> Value) {
        if !self.frozen && self.samples.len() < self.max_samples {
            self.samples.push(v());
        }
    }
    pub fn set_extra(&mut self, k: &str, v: Value) {
        self.extra.insert(k.to_string(), v);
    }
    pub fn add_extra(&mut self, k: &str, n: u64) {
        if self.frozen {
            return;
        }
        let cur = self.extra.get(k).and_then(|v| v.as_u64()).unwrap_or(0);
        self.extra.insert(k.to_string(), json!(cur + n));
    }
    /// Route a failure: a listed known finding is recorded and the case passes (so that the
    /// search continues behind it); anything else is returned as a violation.
    pub fn judge(&mut self, r: Check) -> Check {
        match r {
            Ok(()) => Ok(()),
            Err(f) => {
                if let Some(k) = &f.key {
                    if self.known.contains(k) {
                        if !self.frozen {
                            let e = self.known_seen.entry(k.clone()).or_insert((0, f.msg.clone()));
                            e.0 += 1;
                        }
                        return Ok(());
                    }
                }
                Err(f)
            }
        }
    }
}

pub fn seed_bytes(seed: u64, id: &str, worker: usize, stream: &str) -> [u8; 32] {
    let mut x = fnv(format!("{}/{}/{}/{}", seed, id, worker, stream).as_bytes());
    let mut out = [0u8; 32];
    for i in 0..4 {
        // splitmix64
        x = x.wrapping_add(0x9e3779b97f4a7c15);
        let mut z = x;
        z = (z ^ (z >> 30)).wrapping_mul(0xbf58476d1ce4e5b9);
        z = (z ^ (z >> 27)).wrapping_mul(0x94d049bb133111eb);
        z ^= z >> 31;
        out[i * 8..i * 8 + 8].copy_from_slice(&z.to_le_bytes());
    }
    out
}

pub struct RunCtx<'a> {
    pub id: &'static str,
    pub tier: Tier,
    pub worker: usize,
    pub nworkers: usize,
    pub seed: u64,
    pub st: &'a mut Stats,
}

impl<'a> RunCtx<'a> {
    /// share of `total` cases for this worker
    pub fn share(&self, total: u64) -> u64 {
        let base = total / self.nworkers as u64;
        let rem = total % self.nworkers as u64;
        base + if (self.worker as u64) < rem { 1 } else { 0 }
    }
    /// does this worker own item `i` of an exhaustive enumeration?
    pub fn owns(&self, i: u64) -> bool {
        (i % self.nworkers as u64) as usize == self.worker
    }

    /// E1: run `cases` generated cases of `strategy` through `check`; on the first failure that
    /// is not a listed known finding, shrink it and record it. Returns false if a violation
    /// was found.
    pub fn run_generated<C, S, F>(&mut self, stream: &str, cases: u64, strategy: S, check: F) -> bool
    where
        C: Debug + Serialize + Clone,
        S: Strategy<Value = C>,
        F: Fn(&C, &mut Stats) -> Check,
    {
        if cases == 0 {
            return true;
        }
        let cfg = Config {
            cases: cases.min(u32::MAX as u64) as u32,
            failure_persistence: None,
            max_shrink_iters: 2000,
            // shrinking re-instantiates the nested strategies of prop_flat_map generators at every
            // step (about 30 ms each for the traffic generators): 2000 steps keep the three streams
            // of C20 well inside the watchdog; a bound that is hit costs minimality only (the
            // smallest failing case found so far is reported)
            max_shrink_time: 30_000,
            max_global_rejects: 1 << 30,
            max_local_rejects: 1 << 30,
            verbose: 0,
            ..Config::default()
        };
        let rng = TestRng::from_seed(RngAlgorithm::ChaCha, &seed_bytes(self.seed, self.id, self.worker, stream));
        let mut runner = TestRunner::new_with_rng(cfg, rng);
        let st = RefCell::new(std::mem::take(self.st));
        let last_fail: RefCell<Option<Failure>> = RefCell::new(None);
        let infra: RefCell<Option<String>> = RefCell::new(None);
        let res = runner.run(&strategy, |c| {
            let mut s = st.borrow_mut();
            let r = std::panic::catch_unwind(std::panic::AssertUnwindSafe(|| check(&c, &mut s)));
            match r {
                Err(_) => {
                    // a panic of the harness itself (SUT panics are caught inside Sut::frame)
                    let mut i = infra.borrow_mut();
                    if i.is_none() {
                        *i = Some(format!("harness panic while checking case {:?}", c));
                    }
                    s.frozen = true;
                    Ok(())
                }
                Ok(r) => match s.judge(r) {
                    Ok(()) => Ok(()),
                    Err(f) => {
                        s.frozen = true; // stop counting: shrinking re-executes the closure
                        let m = f.msg.clone();
                        *last_fail.borrow_mut() = Some(f);
                        Err(TestCaseError::fail(m))
                    }
                },
            }
        });
        *self.st = st.into_inner();
        self.st.frozen = false;
        if let Some(i) = infra.into_inner() {
            self.st.infra_errors.push(i);
        }
        match res {
            Ok(()) => true,
            Err(TestError::Fail(_reason, value)) => {
                // re-run the minimal case once to obtain its own failure text
                self.st.frozen = true;
                let f = match check(&value, self.st) {
                    Err(f) => f,
                    Ok(()) => last_fail.into_inner().unwrap_or(Failure::new("failure did not reproduce on the shrunk case (flaky oracle?)")),
                };
                self.st.frozen = false;
                self.st.found.push(Found {
                    case: serde_json::to_value(&value).unwrap_or(Value::Null),
                    failure: f,
                    stream: stream.to_string(),
                });
                false
            }
            Err(TestError::Abort(reason)) => {
                self.st.infra_errors.push(format!("proptest aborted stream {}: {}", stream, reason));
                true
            }
        }
    }

    /// Directed / exhaustive case: judge and record without shrinking.
    pub fn run_one<C: Serialize>(&mut self, stream: &str, case: &C, r: Check) -> bool {
        match self.st.judge(r) {
            Ok(()) => true,
            Err(f) => {
                if self.st.found.len() < 8 {
                    self.st.found.push(Found {
                        case: serde_json::to_value(case).unwrap_or(Value::Null),
                        failure: f,
                        stream: stream.to_string(),
                    });
                }
                false
            }
        }
    }
}

/// One property's machinery.
pub trait Prop: Sync {
    fn id(&self) -> &'static str;
    /// how cases are generated and what makes one non-trivial
    fn rule(&self) -> &'static str;
    fn assumptions(&self) -> Vec<String> {
        vec![]
    }
    /// does this property also run on the relcheck (debug-arithmetic) profile in this tier?
    fn wants_relcheck(&self, tier: Tier) -> bool {
        tier == Tier::Thorough
    }
    /// run this worker's share
    fn run(&self, ctx: &mut RunCtx);
    /// re-judge one saved case (regression / replay); `stream` tells which sub-check
    fn replay(&self, stream: &str, case: &Value, st: &mut Stats) -> Check;
}

#[derive(Serialize, Deserialize)]
pub struct ReplayFile {
    pub property: String,
    pub stream: String,
    pub case: Value,
    #[serde(default)]
    pub verdict: String,
    #[serde(default)]
    pub key: Option<String>,
}
