// The system under test: the real `reply()` of masscanned, called in-process.
//
// * panics are caught and recorded with their (normalised) source location;
// * our own `log::Log` formats every record, so that with `log::set_max_level(L)` the
//   arguments of masscanned's warn!/info!/debug! are really evaluated;
// * masscanned's real ConsoleLogger / LogfmtLogger can be attached; their stdout text is
//   captured through a memfd that replaces fd 1 of this (worker) process;
// * a structural recording logger (own `Logger` impl) records events without text.

use std::cell::RefCell;
use std::collections::HashSet;
use std::fmt::Write as _;
use std::io::Write as _;
use std::net::IpAddr;
use std::sync::Once;

use serde::{Deserialize, Serialize};

use crate::logger::{ConsoleLogger, LogfmtLogger, Logger, MetaLogger};
use crate::Masscanned;
use pnet::packet::Packet as _;
use pnet::util::MacAddr;

#[derive(Clone, Copy, Debug, Serialize, Deserialize, PartialEq, Eq, Hash)]
pub enum LoggerKind {
    None,
    Console,
    Logfmt,
    Struct,
}

#[derive(Clone, Debug, Serialize, Deserialize, PartialEq)]
pub struct Cfg {
    pub mac: [u8; 6],
    pub self_ips: Option<Vec<IpAddr>>,
    pub deny: Option<Vec<IpAddr>>,
    pub key: [u64; 2],
    pub logger: LoggerKind,
    /// 0 = Off, 1 = Error, 2 = Warn, 3 = Info, 4 = Debug, 5 = Trace
    pub level: u8,
}

impl Cfg {
    pub fn plain(mac: [u8; 6]) -> Cfg {
        Cfg {
            mac,
            self_ips: None,
            deny: None,
            key: [0x0123456789abcdef, 0xfedcba9876543210],
            logger: LoggerKind::None,
            level: 0,
        }
    }
    pub fn in_self(&self, ip: &IpAddr) -> bool {
        match &self.self_ips {
            None => true,
            Some(l) => l.contains(ip),
        }
    }
    pub fn denied(&self, ip: &IpAddr) -> bool {
        match &self.deny {
            None => false,
            Some(l) => l.contains(ip),
        }
    }
}

#[derive(Clone, Debug, Serialize, Deserialize, PartialEq)]
pub struct PanicInfo {
    pub msg: String,
    pub file: String,
    pub line: u32,
}

impl PanicInfo {
    /// Key used for known findings: (normalised source file, message)
    pub fn key(&self) -> String {
        format!("panic@{}:{}", self.file, self.msg)
    }
}

#[derive(Clone, Debug, PartialEq)]
pub enum Out {
    Reply(Vec<u8>),
    Silence,
    Panic(PanicInfo),
}

impl Out {
    pub fn reply(&self) -> Option<&Vec<u8>> {
        match self {
            Out::Reply(r) => Some(r),
            _ => None,
        }
    }
    pub fn is_silence(&self) -> bool {
        matches!(self, Out::Silence)
    }
    pub fn panic(&self) -> Option<&PanicInfo> {
        match self {
            Out::Panic(p) => Some(p),
            _ => None,
        }
    }
    pub fn brief(&self) -> String {
        match self {
            Out::Reply(r) => format!("reply:{}", super::util::hex(r)),
            Out::Silence => "silence".to_string(),
            Out::Panic(p) => format!("PANIC {}:{} {}", p.file, p.line, p.msg),
        }
    }
}

thread_local! {
    static LAST_PANIC: RefCell<Option<PanicInfo>> = RefCell::new(None);
    static LOG_BUF: RefCell<String> = RefCell::new(String::new());
    static LOG_COUNT: RefCell<u64> = RefCell::new(0);
    static EVENTS: RefCell<Vec<Event>> = RefCell::new(Vec::new());
}

pub fn normalise_path(p: &str) -> String {
    if let Some(i) = p.find("/registry/src/") {
        let rest = &p[i + "/registry/src/".len()..];
        if let Some(j) = rest.find('/') {
            return rest[j + 1..].to_string();
        }
    }
    if let Some(i) = p.find("/library/") {
        return p[i + 1..].to_string();
    }
    if let Some(i) = p.rfind("/src/") {
        return p[i + 1..].to_string();
    }
    p.to_string()
}

struct Sink;

impl log::Log for Sink {
    fn enabled(&self, _m: &log::Metadata) -> bool {
        true
    }
    fn log(&self, record: &log::Record) {
        LOG_COUNT.with(|c| *c.borrow_mut() += 1);
        LOG_BUF.with(|b| {
            if let Ok(mut b) = b.try_borrow_mut() {
                b.clear();
                let _ = write!(b, "{}", record.args());
            }
        });
    }
    fn flush(&self) {}
}

static SINK: Sink = Sink;
static INIT: Once = Once::new();

pub fn global_init() {
    INIT.call_once(|| {
        std::panic::set_hook(Box::new(|info| {
            let msg = if let Some(s) = info.payload().downcast_ref::<&str>() {
                s.to_string()
            } else if let Some(s) = info.payload().downcast_ref::<String>() {
                s.clone()
            } else {
                "<non-string panic payload>".to_string()
            };
            let (file, line) = match info.location() {
                Some(l) => (normalise_path(l.file()), l.line()),
                None => ("<unknown>".to_string(), 0),
            };
            LAST_PANIC.with(|p| {
                if let Ok(mut p) = p.try_borrow_mut() {
                    if p.is_none() {
                        *p = Some(PanicInfo { msg, file, line });
                    }
                }
            });
        }));
        let _ = log::set_logger(&SINK);
        log::set_max_level(log::LevelFilter::Off);
    });
}

pub fn level_filter(l: u8) -> log::LevelFilter {
    match l {
        0 => log::LevelFilter::Off,
        1 => log::LevelFilter::Error,
        2 => log::LevelFilter::Warn,
        3 => log::LevelFilter::Info,
        4 => log::LevelFilter::Debug,
        _ => log::LevelFilter::Trace,
    }
}

pub fn log_records_seen() -> u64 {
    LOG_COUNT.with(|c| *c.borrow())
}

// ---------------------------------------------------------------------------------------
// stdout capture (fd 1 -> memfd)

static mut CAP_FD: i32 = -1;
static mut REAL_STDOUT: i32 = -1;

/// give fd 1 back to the process's real standard output (the parent process captures only
/// while it re-judges fuzzing inputs; its verdict lines must reach the caller)
pub fn capture_release() {
    let _ = std::io::stdout().flush();
    unsafe {
        if CAP_FD >= 0 && REAL_STDOUT >= 0 {
            libc::dup2(REAL_STDOUT, 1);
            libc::close(CAP_FD);
            CAP_FD = -1;
        }
    }
}

pub fn capture_init() {
    unsafe {
        if CAP_FD >= 0 {
            return;
        }
        if REAL_STDOUT < 0 {
            let _ = std::io::stdout().flush();
            REAL_STDOUT = libc::dup(1);
        }
        let name = b"mverif-stdout\0";
        let fd = libc::memfd_create(name.as_ptr() as *const libc::c_char, 0);
        if fd < 0 {
            eprintln!("mverif: memfd_create failed");
            std::process::exit(2);
        }
        let _ = std::io::stdout().flush();
        if libc::dup2(fd, 1) < 0 {
            eprintln!("mverif: dup2 failed");
            std::process::exit(2);
        }
        CAP_FD = fd;
    }
}

/// Everything masscanned printed to stdout since the last call.
pub fn capture_take() -> Vec<u8> {
    let _ = std::io::stdout().flush();
    unsafe {
        if CAP_FD < 0 {
            return Vec::new();
        }
        let end = libc::lseek(CAP_FD, 0, libc::SEEK_END);
        let mut buf = vec![0u8; if end > 0 { end as usize } else { 0 }];
        if end > 0 {
            let mut got = 0usize;
            while got < buf.len() {
                let n = libc::pread(
                    CAP_FD,
                    buf[got..].as_mut_ptr() as *mut libc::c_void,
                    buf.len() - got,
                    got as libc::off_t,
                );
                if n <= 0 {
                    break;
                }
                got += n as usize;
            }
            buf.truncate(got);
        }
        libc::ftruncate(CAP_FD, 0);
        libc::lseek(CAP_FD, 0, libc::SEEK_SET);
        libc::lseek(1, 0, libc::SEEK_SET);
        buf
    }
}

// ---------------------------------------------------------------------------------------
// structural recording logger

#[derive(Clone, Debug, PartialEq, Serialize)]
pub struct Event {
    pub layer: &'static str,
    pub verb: &'static str,
}

struct RecLogger;

fn ev(layer: &'static str, verb: &'static str) {
    EVENTS.with(|e| e.borrow_mut().push(Event { layer, verb }));
}

use pnet::packet::{
    arp::{ArpPacket, MutableArpPacket},
    ethernet::{EthernetPacket as EthP, MutableEthernetPacket as MutEthP},
    icmp::{IcmpPacket, MutableIcmpPacket},
    icmpv6::{Icmpv6Packet, MutableIcmpv6Packet},
    ipv4::{Ipv4Packet, MutableIpv4Packet},
    ipv6::{Ipv6Packet, MutableIpv6Packet},
    tcp::{MutableTcpPacket, TcpPacket},
    udp::{MutableUdpPacket, UdpPacket},
};
use crate::client::ClientInfo;

impl Logger for RecLogger {
    fn init(&self) {}
    fn arp_recv(&self, _p: &ArpPacket) {
        ev("arp", "recv")
    }
    fn arp_drop(&self, _p: &ArpPacket) {
        ev("arp", "drop")
    }
    fn arp_send(&self, _p: &MutableArpPacket) {
        ev("arp", "send")
    }
    fn eth_recv(&self, _p: &EthP, _c: &ClientInfo) {
        ev("eth", "recv")
    }
    fn eth_drop(&self, _p: &EthP, _c: &ClientInfo) {
        ev("eth", "drop")
    }
    fn eth_send(&self, _p: &MutEthP, _c: &ClientInfo) {
        ev("eth", "send")
    }
    fn ipv4_recv(&self, _p: &Ipv4Packet, _c: &ClientInfo) {
        ev("ipv4", "recv")
    }
    fn ipv4_drop(&self, _p: &Ipv4Packet, _c: &ClientInfo) {
        ev("ipv4", "drop")
    }
    fn ipv4_send(&self, _p: &MutableIpv4Packet, _c: &ClientInfo) {
        ev("ipv4", "send")
    }
    fn ipv6_recv(&self, _p: &Ipv6Packet, _c: &ClientInfo) {
        ev("ipv6", "recv")
    }
    fn ipv6_drop(&self, _p: &Ipv6Packet, _c: &ClientInfo) {
        ev("ipv6", "drop")
    }
    fn ipv6_send(&self, _p: &MutableIpv6Packet, _c: &ClientInfo) {
        ev("ipv6", "send")
    }
    fn icmpv4_recv(&self, _p: &IcmpPacket, _c: &ClientInfo) {
        ev("icmpv4", "recv")
    }
    fn icmpv4_drop(&self, _p: &IcmpPacket, _c: &ClientInfo) {
        ev("icmpv4", "drop")
    }
    fn icmpv4_send(&self, _p: &MutableIcmpPacket, _c: &ClientInfo) {
        ev("icmpv4", "send")
    }
    fn icmpv6_recv(&self, _p: &Icmpv6Packet, _c: &ClientInfo) {
        ev("icmpv6", "recv")
    }
    fn icmpv6_drop(&self, _p: &Icmpv6Packet, _c: &ClientInfo) {
        ev("icmpv6", "drop")
    }
    fn icmpv6_send(&self, _p: &MutableIcmpv6Packet, _c: &ClientInfo) {
        ev("icmpv6", "send")
    }
    fn tcp_recv(&self, _p: &TcpPacket, _c: &ClientInfo) {
        ev("tcp", "recv")
    }
    fn tcp_drop(&self, _p: &TcpPacket, _c: &ClientInfo) {
        ev("tcp", "drop")
    }
    fn tcp_send(&self, _p: &MutableTcpPacket, _c: &ClientInfo) {
        ev("tcp", "send")
    }
    fn udp_recv(&self, _p: &UdpPacket, _c: &ClientInfo) {
        ev("udp", "recv")
    }
    fn udp_drop(&self, _p: &UdpPacket, _c: &ClientInfo) {
        ev("udp", "drop")
    }
    fn udp_send(&self, _p: &MutableUdpPacket, _c: &ClientInfo) {
        ev("udp", "send")
    }
}

pub fn events_take() -> Vec<Event> {
    EVENTS.with(|e| std::mem::take(&mut *e.borrow_mut()))
}

// ---------------------------------------------------------------------------------------

pub struct Sut {
    pub cfg: Cfg,
    ips: Option<HashSet<IpAddr>>,
    deny: Option<HashSet<IpAddr>>,
}

impl Sut {
    /// Does not reset the connection table: call `Sut::reset()` at the top of every case.
    pub fn new(cfg: &Cfg) -> Sut {
        global_init();
        log::set_max_level(level_filter(cfg.level));
        Sut {
            cfg: cfg.clone(),
            ips: cfg.self_ips.as_ref().map(|v| v.iter().cloned().collect()),
            deny: cfg.deny.as_ref().map(|v| v.iter().cloned().collect()),
        }
    }

    pub fn reset() {
        crate::proto::verif_tcb_reset();
        let _ = events_take();
        super::shadow::reset_flows();
    }

    pub fn tcb_len() -> usize {
        crate::proto::verif_tcb_len()
    }

    pub fn tcb_poisoned() -> bool {
        crate::proto::verif_tcb_poisoned()
    }

    /// Process one received frame. When the case carries shadow traffic (vf/shadow.rs) a sibling of
    /// the frame is processed first and its result (and log output) discarded.
    pub fn frame(&self, f: &[u8]) -> Out {
        if super::shadow::active() {
            if let Some(g) = super::shadow::before(f, self.ips.is_some()) {
                let so = self.frame_raw(&g);
                super::shadow::learn(f, &so, true);
                if !matches!(self.cfg.logger, LoggerKind::None) {
                    let _ = capture_take();
                    let _ = events_take();
                }
            }
            let o = self.frame_raw(f);
            super::shadow::learn(f, &o, false);
            return o;
        }
        self.frame_raw(f)
    }

    fn frame_raw(&self, f: &[u8]) -> Out {
        let mut log = MetaLogger::new();
        match self.cfg.logger {
            LoggerKind::None => {}
            LoggerKind::Console => log.add(Box::new(ConsoleLogger::new())),
            LoggerKind::Logfmt => log.add(Box::new(LogfmtLogger::new())),
            LoggerKind::Struct => log.add(Box::new(RecLogger)),
        }
        let m = Masscanned {
            synack_key: self.cfg.key,
            mac: MacAddr::new(
                self.cfg.mac[0],
                self.cfg.mac[1],
                self.cfg.mac[2],
                self.cfg.mac[3],
                self.cfg.mac[4],
                self.cfg.mac[5],
            ),
            iface: None,
            self_ip_list: self.ips.as_ref(),
            remote_ip_deny_list: self.deny.as_ref(),
            log,
        };
        LAST_PANIC.with(|p| *p.borrow_mut() = None);
        let r = std::panic::catch_unwind(std::panic::AssertUnwindSafe(|| {
            crate::reply(f, &m).map(|p| p.packet().to_vec())
        }));
        match r {
            Ok(Some(v)) => Out::Reply(v),
            Ok(None) => Out::Silence,
            Err(_) => {
                let info = LAST_PANIC.with(|p| p.borrow_mut().take()).unwrap_or(PanicInfo {
                    msg: "<panic without hook info>".into(),
                    file: "<unknown>".into(),
                    line: 0,
                });
                Out::Panic(info)
            }
        }
    }
}

// ---------------------------------------------------------------------------------------
// a responder in a fresh process: no history at all, not even that of earlier cases

/// child side of `fresh_process`: reads {"cfg": Cfg, "frames": [hex]} from stdin, hands the frames
/// to a responder that has seen nothing else in its life, prints one JSON array of results
pub fn exec_frames_child() -> i32 {
    use std::io::Read;
    let mut inp = String::new();
    if std::io::stdin().read_to_string(&mut inp).is_err() {
        return 2;
    }
    let v: serde_json::Value = match serde_json::from_str(&inp) {
        Ok(v) => v,
        Err(_) => return 2,
    };
    let mut cfg: Cfg = match serde_json::from_value(v["cfg"].clone()) {
        Ok(c) => c,
        Err(_) => return 2,
    };
    cfg.logger = LoggerKind::None;
    let sut = Sut::new(&cfg);
    Sut::reset();
    let mut outs = Vec::new();
    for f in v["frames"].as_array().cloned().unwrap_or_default() {
        let bytes = super::util::unhex(f.as_str().unwrap_or("")).unwrap_or_default();
        outs.push(match sut.frame(&bytes) {
            Out::Reply(r) => serde_json::json!({"reply": super::util::hex(&r)}),
            Out::Silence => serde_json::json!({"silence": true}),
            Out::Panic(p) => serde_json::json!({"panic": format!("{}:{} {}", p.file, p.line, p.msg)}),
        });
    }
    println!("{}", serde_json::Value::Array(outs));
    0
}

/// Results of handing `frames` to a responder freshly started in a process of its own (same
/// binary, same configuration). Err = the child could not be run (infrastructure).
pub fn fresh_process(cfg: &Cfg, frames: &[Vec<u8>]) -> Result<Vec<Out>, String> {
    use std::io::Write;
    use std::process::{Command, Stdio};
    let exe = std::env::current_exe().map_err(|e| e.to_string())?;
    let req = serde_json::json!({"cfg": cfg, "frames": frames.iter().map(|f| super::util::hex(f)).collect::<Vec<_>>()});
    let mut ch = Command::new(exe).arg("exec-frames").stdin(Stdio::piped()).stdout(Stdio::piped()).stderr(Stdio::null()).spawn().map_err(|e| e.to_string())?;
    ch.stdin.take().ok_or("no stdin")?.write_all(req.to_string().as_bytes()).map_err(|e| e.to_string())?;
    let o = ch.wait_with_output().map_err(|e| e.to_string())?;
    let text = String::from_utf8_lossy(&o.stdout).to_string();
    let line = text.lines().rev().find(|l| l.starts_with('[')).ok_or_else(|| format!("child printed no result (status {:?})", o.status.code()))?;
    let v: serde_json::Value = serde_json::from_str(line).map_err(|e| e.to_string())?;
    let mut outs = Vec::new();
    for e in v.as_array().cloned().unwrap_or_default() {
        if let Some(r) = e.get("reply").and_then(|r| r.as_str()) {
            outs.push(Out::Reply(super::util::unhex(r).unwrap_or_default()));
        } else if let Some(p) = e.get("panic").and_then(|r| r.as_str()) {
            outs.push(Out::Panic(PanicInfo { msg: p.to_string(), file: "<child>".into(), line: 0 }));
        } else {
            outs.push(Out::Silence);
        }
    }
    if outs.len() != frames.len() {
        return Err(format!("child answered {} of {} frames", outs.len(), frames.len()));
    }
    Ok(outs)
}
