// Shadow traffic: before every frame of a case, a *sibling* of that frame is handed to the
// responder and its result thrown away — the same frame again, or the same frame with one
// element changed (source port, destination port, source address, destination address, source
// MAC, one bit of the application payload). TCP conversations are shadowed as a whole: the
// sibling flow gets the same SYN and the same data segments, with the acknowledgement number
// re-based on the sibling flow's own cookie (learned from the SYN-ACK the responder sent to the
// shadow SYN), so the sibling flow is validated and answered exactly like the real one.
//
// Soundness: the statement of C08 — a reply is a function of the configuration, the frame and,
// for TCP data, the data previously accepted on the *same* 4-tuple — makes sibling traffic
// irrelevant to every per-frame and per-flow oracle. Shadow TCP segments never travel on the
// 4-tuple of a real flow of the case (checked at run time; a coincidence taints the case, which is
// then excluded and counted, never judged). What the shadow adds is the history that a memo,
// scratch buffer or cache keyed on too little needs in order to show.

use proptest::prelude::*;
use serde::{Deserialize, Serialize};
use std::cell::RefCell;
use std::collections::{HashMap, HashSet};

use super::codec::*;
use super::util::be16;
use super::sut::Out;

#[derive(Clone, Debug, Serialize, Deserialize, PartialEq, Eq, Hash)]
pub struct Shadow {
    /// 0 = identical frame (TCP: treated as 1), 1 = source port / echo identifier / ARP sender
    /// address, 2 = destination port / echo sequence number / ARP target address, 3 = source
    /// address, 4 = destination address (source address when a self-IP list is configured or the
    /// frame is multicast), 5 = source MAC (TCP: treated as 1)
    pub vary: u8,
    /// flip bit `.1` of application payload byte `.0` (TCP, UDP) in the sibling
    #[serde(default)]
    pub pay: Option<(u8, u8)>,
    /// give the sibling's application payload (TCP, UDP) this length: cut short, or extended with
    /// filler bytes (length fields and checksums follow)
    #[serde(default)]
    pub resize: Option<u8>,
}

pub fn shadow() -> impl Strategy<Value = Shadow> {
    (0u8..6, prop::option::weighted(0.45, (prop_oneof![3 => 0u8..8, 2 => 0u8..40, 1 => 0u8..120], 0u8..8)), prop::option::weighted(0.3, prop_oneof![2 => prop::sample::select(vec![20u8, 28, 5, 8, 16, 44]), 2 => 0u8..64, 1 => any::<u8>()])).prop_map(|(vary, pay, resize)| Shadow { vary, pay, resize })
}

/// the usual dose: three cases in ten carry shadow traffic
pub fn shadow_opt() -> impl Strategy<Value = Option<Shadow>> {
    prop::option::weighted(0.3, shadow())
}

type Key = (Vec<u8>, Vec<u8>, u16, u16);

#[derive(Default)]
struct State {
    sh: Option<Shadow>,
    /// real flow -> (cookie of the real flow, cookie of its sibling flow)
    cookies: HashMap<Key, (Option<u32>, Option<u32>)>,
    real_tcp: HashSet<Key>,
    shadow_tcp: HashSet<Key>,
    tainted: bool,
    sent: u64,
}

thread_local! {
    static STATE: RefCell<State> = RefCell::new(State::default());
}

pub struct ShadowGuard;

impl ShadowGuard {
    pub fn set(sh: &Option<Shadow>) -> ShadowGuard {
        STATE.with(|s| {
            *s.borrow_mut() = State { sh: sh.clone(), ..State::default() };
        });
        ShadowGuard
    }
}

impl Drop for ShadowGuard {
    fn drop(&mut self) {
        STATE.with(|s| *s.borrow_mut() = State::default());
    }
}

pub fn active() -> bool {
    STATE.with(|s| s.borrow().sh.is_some())
}

/// a real TCP frame travelled on a 4-tuple that shadow traffic had used before: the case cannot be judged
pub fn tainted() -> bool {
    STATE.with(|s| s.borrow().tainted)
}

pub fn frames_sent() -> u64 {
    STATE.with(|s| s.borrow().sent)
}

/// forget flows and cookies (the connection table was reset) but keep the setting
pub fn reset_flows() {
    STATE.with(|s| {
        let mut s = s.borrow_mut();
        s.cookies.clear();
        s.real_tcp.clear();
        s.shadow_tcp.clear();
    });
}

struct Parsed {
    v4: bool,
    l3: usize,
    l4: usize,
    /// end of the IP packet (bytes behind it are Ethernet padding / a trailer)
    end: usize,
    proto: u8,
}

fn parse(f: &[u8]) -> Option<Parsed> {
    if f.len() < 14 {
        return None;
    }
    let p = &f[14..];
    match be16(f, 12) {
        ET_V4 => {
            if p.len() < 20 || p[0] >> 4 != 4 {
                return None;
            }
            let ihl = ((p[0] & 0x0f) as usize) * 4;
            let tl = be16(p, 2) as usize;
            if ihl < 20 || tl < ihl || tl > p.len() || (be16(p, 6) & 0x3fff) != 0 {
                return None;
            }
            Some(Parsed { v4: true, l3: 14, l4: 14 + ihl, end: 14 + tl, proto: p[9] })
        }
        ET_V6 => {
            if p.len() < 40 || p[0] >> 4 != 6 || be16(p, 4) as usize + 40 > p.len() {
                return None;
            }
            Some(Parsed { v4: false, l3: 14, l4: 54, end: 54 + be16(p, 4) as usize, proto: p[6] })
        }
        _ => None,
    }
}

fn addrs(f: &[u8], p: &Parsed) -> (Vec<u8>, Vec<u8>) {
    if p.v4 {
        (f[p.l3 + 12..p.l3 + 16].to_vec(), f[p.l3 + 16..p.l3 + 20].to_vec())
    } else {
        (f[p.l3 + 8..p.l3 + 24].to_vec(), f[p.l3 + 24..p.l3 + 40].to_vec())
    }
}

fn ipaddrs(f: &[u8], p: &Parsed) -> (std::net::IpAddr, std::net::IpAddr) {
    let (s, d) = addrs(f, p);
    if p.v4 {
        (std::net::IpAddr::V4(std::net::Ipv4Addr::new(s[0], s[1], s[2], s[3])), std::net::IpAddr::V4(std::net::Ipv4Addr::new(d[0], d[1], d[2], d[3])))
    } else {
        let mut a = [0u8; 16];
        a.copy_from_slice(&s);
        let mut b = [0u8; 16];
        b.copy_from_slice(&d);
        (std::net::IpAddr::V6(a.into()), std::net::IpAddr::V6(b.into()))
    }
}

fn tcp_key(f: &[u8]) -> Option<(Key, u16)> {
    let p = parse(f)?;
    if p.proto != P_TCP || p.end < p.l4 + 20 {
        return None;
    }
    let doff = ((f[p.l4 + 12] >> 4) as usize) * 4;
    if doff < 20 || p.end < p.l4 + doff {
        return None;
    }
    let (s, d) = addrs(f, &p);
    let flags = be16(f, p.l4 + 12) & 0x1ff;
    Some(((s, d, be16(f, p.l4), be16(f, p.l4 + 2)), flags))
}

fn l4_csum_off(proto: u8) -> Option<usize> {
    match proto {
        P_TCP => Some(16),
        P_UDP => Some(6),
        P_ICMP | P_ICMP6 => Some(2),
        _ => None,
    }
}

fn l4_sum(f: &[u8], p: &Parsed, end: usize) -> u16 {
    let (s, d) = ipaddrs(f, p);
    let seg = &f[p.l4..end];
    let acc = if p.proto == P_ICMP { 0 } else { pseudo(&s, &d, p.proto, seg.len()) };
    inet_csum(seg, acc)
}

/// the sibling of a real frame, or None when the frame is not a consistent ARP / IPv4 / IPv6
/// frame with a complete transport header (lies and truncations are not shadowed)
fn sibling(f: &[u8], sh: &Shadow, allow_dst: bool, cookies: &HashMap<Key, (Option<u32>, Option<u32>)>) -> Option<Vec<u8>> {
    if f.len() < 14 {
        return None;
    }
    let mut g = f.to_vec();
    if be16(f, 12) == ET_ARP {
        if f.len() < 42 || f[14..20] != [0, 1, 8, 0, 6, 4] {
            return None;
        }
        match sh.vary {
            0 => {}
            1 | 3 => g[30] ^= 0x5a,
            2 | 4 => {
                if allow_dst {
                    g[40] ^= 0x5a
                } else {
                    g[30] ^= 0x5a
                }
            }
            _ => {
                g[10] ^= 0x5a;
                g[26] ^= 0x5a;
            }
        }
        return Some(g);
    }
    let p = parse(f)?;
    let co = l4_csum_off(p.proto)?;
    let l4len = p.end - p.l4;
    let (hdr, is_tcp) = match p.proto {
        P_TCP => {
            if l4len < 20 {
                return None;
            }
            let doff = ((f[p.l4 + 12] >> 4) as usize) * 4;
            if doff < 20 || l4len < doff {
                return None;
            }
            (doff, true)
        }
        P_UDP => {
            if l4len < 8 || be16(f, p.l4 + 4) as usize != l4len {
                return None;
            }
            (8, false)
        }
        _ => {
            if l4len < 8 {
                return None;
            }
            (8, false)
        }
    };
    let l4_ok = l4_sum(f, &p, p.end) == 0 && !(p.proto == P_UDP && p.v4 && be16(f, p.l4 + co) == 0);
    let ip_ok = !p.v4 || inet_csum(&f[p.l3..p.l4], 0) == 0;
    let multicast = f[0] & 1 == 1;
    let mut vary = sh.vary;
    if is_tcp && (vary == 0 || vary >= 5) {
        vary = 1;
    }
    if vary == 4 && (!allow_dst || multicast) {
        vary = 3;
    }
    let echo = (p.proto == P_ICMP && f[p.l4] == 8) || (p.proto == P_ICMP6 && f[p.l4] == 128);
    match vary {
        0 => {}
        1 => {
            if p.proto == P_TCP || p.proto == P_UDP {
                g[p.l4] ^= 0x5a;
                g[p.l4 + 1] ^= 0x5a;
            } else if echo {
                g[p.l4 + 4] ^= 0x5a;
                g[p.l4 + 5] ^= 0x5a;
            } else {
                g[p.l3 + if p.v4 { 14 } else { 21 }] ^= 0x5a;
            }
        }
        2 => {
            if p.proto == P_TCP || p.proto == P_UDP {
                g[p.l4 + 2] ^= 0x0a;
                g[p.l4 + 3] ^= 0x0a;
            } else if echo {
                g[p.l4 + 6] ^= 0x5a;
                g[p.l4 + 7] ^= 0x5a;
            } else {
                g[p.l3 + if p.v4 { 14 } else { 21 }] ^= 0x5a;
            }
        }
        3 => g[p.l3 + if p.v4 { 14 } else { 21 }] ^= 0x5a,
        4 => g[p.l3 + if p.v4 { 18 } else { 37 }] ^= 0x5a,
        _ => g[10] ^= 0x5a,
    }
    if is_tcp {
        let flags = be16(f, p.l4 + 12) & 0x1ff;
        if flags & F_ACK != 0 {
            if let Some((k, _)) = tcp_key(f) {
                if let Some((Some(r), Some(s))) = cookies.get(&k) {
                    let a = u32::from_be_bytes([f[p.l4 + 8], f[p.l4 + 9], f[p.l4 + 10], f[p.l4 + 11]]);
                    let a2 = a.wrapping_sub(*r).wrapping_add(*s);
                    g[p.l4 + 8..p.l4 + 12].copy_from_slice(&a2.to_be_bytes());
                }
            }
        }
    }
    if let Some((k, b)) = sh.pay {
        if p.proto == P_TCP || p.proto == P_UDP {
            let i = p.l4 + hdr + k as usize;
            if i < p.end {
                g[i] ^= 1 << (b & 7);
            }
        }
    }
    let mut end = p.end;
    if let Some(n) = sh.resize {
        if p.proto == P_TCP || p.proto == P_UDP {
            let start = p.l4 + hdr;
            let cur = end - start;
            let n = n as usize;
            if n < cur {
                g.drain(start + n..end);
            } else if n > cur {
                let tail = g.split_off(end);
                g.resize(start + n, 0x41);
                g.extend_from_slice(&tail);
            }
            end = start + n;
            if p.v4 {
                let tl = (end - p.l3) as u16;
                g[p.l3 + 2..p.l3 + 4].copy_from_slice(&tl.to_be_bytes());
            } else {
                let pl = (end - p.l4) as u16;
                g[p.l3 + 4..p.l3 + 6].copy_from_slice(&pl.to_be_bytes());
            }
            if p.proto == P_UDP {
                let ul = (end - p.l4) as u16;
                g[p.l4 + 4..p.l4 + 6].copy_from_slice(&ul.to_be_bytes());
            }
        }
    }
    if p.v4 && ip_ok {
        g[p.l3 + 10] = 0;
        g[p.l3 + 11] = 0;
        let c = inet_csum(&g[p.l3..p.l4], 0);
        g[p.l3 + 10] = (c >> 8) as u8;
        g[p.l3 + 11] = c as u8;
    }
    if l4_ok {
        g[p.l4 + co] = 0;
        g[p.l4 + co + 1] = 0;
        let mut c = l4_sum(&g, &p, end);
        if p.proto == P_UDP && c == 0 {
            c = 0xffff;
        }
        g[p.l4 + co] = (c >> 8) as u8;
        g[p.l4 + co + 1] = c as u8;
    }
    Some(g)
}

/// Called by `Sut::frame` before the real frame is processed: the sibling to send first, if any.
pub fn before(f: &[u8], self_ips_configured: bool) -> Option<Vec<u8>> {
    STATE.with(|s| {
        let mut s = s.borrow_mut();
        let sh = s.sh.clone()?;
        if let Some((k, _)) = tcp_key(f) {
            if s.shadow_tcp.contains(&k) {
                s.tainted = true;
                return None;
            }
            s.real_tcp.insert(k);
        }
        let g = sibling(f, &sh, !self_ips_configured, &s.cookies)?;
        if let Some((k2, _)) = tcp_key(&g) {
            if s.real_tcp.contains(&k2) {
                return None;
            }
            s.shadow_tcp.insert(k2);
        }
        s.sent += 1;
        Some(g)
    })
}

/// Called by `Sut::frame` with the responder's answer to the sibling (`is_shadow`) or to the real
/// frame: SYN-ACK sequence numbers are remembered per real flow.
pub fn learn(real: &[u8], out: &Out, is_shadow: bool) {
    let (k, flags) = match tcp_key(real) {
        Some(x) => x,
        None => return,
    };
    if flags & F_SYN == 0 {
        return;
    }
    let seq = match out {
        Out::Reply(r) => match decode_reply(r) {
            Ok(d) => match d.tcp() {
                Some(t) if t.flags == (F_SYN | F_ACK) => t.seq,
                _ => return,
            },
            Err(_) => return,
        },
        _ => return,
    };
    STATE.with(|s| {
        let mut s = s.borrow_mut();
        if s.sh.is_none() {
            return;
        }
        let e = s.cookies.entry(k).or_insert((None, None));
        if is_shadow {
            e.1 = Some(seq);
        } else {
            e.0 = Some(seq);
        }
    });
}

/// Wrap a per-case check: set the case's shadow for the duration of `f`; a tainted case (see
/// above) is excluded and counted instead of judged.
pub fn with_shadow<F: FnOnce(&mut super::engine::Stats) -> super::engine::Check>(sh: &Option<Shadow>, st: &mut super::engine::Stats, f: F) -> super::engine::Check {
    let _g = ShadowGuard::set(sh);
    let r = f(st);
    if sh.is_some() {
        st.add_extra("shadow_frames", frames_sent());
        if tainted() {
            st.exclude("shadow-tuple-collision");
            return Ok(());
        }
    }
    r
}
