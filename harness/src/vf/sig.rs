// Reference signature automaton: the published signature set transcribed as data
// (literals and `?` wildcards, begin/end anchors) and interpreted naively.

use serde::{Deserialize, Serialize};

#[derive(Clone, Copy, Debug, PartialEq, Eq, Hash, Serialize, Deserialize, PartialOrd, Ord)]
pub enum Proto {
    Http,
    Stun,
    Ssh,
    Ghost,
    RpcTcp,
    RpcUdp,
    Smb1,
    Smb2,
}

impl Proto {
    pub fn hook_name(&self) -> &'static str {
        match self {
            Proto::Http => "HTTP",
            Proto::Stun => "STUN",
            Proto::Ssh => "SSH",
            Proto::Ghost => "GHOST",
            Proto::RpcTcp => "RPC_TCP",
            Proto::RpcUdp => "RPC_UDP",
            Proto::Smb1 => "SMB1",
            Proto::Smb2 => "SMB2",
        }
    }
}

#[derive(Clone, Debug)]
pub struct Sig {
    pub name: &'static str,
    pub proto: Proto,
    /// None = wildcard
    pub pat: Vec<Option<u8>>,
    pub end_anchored: bool,
}

fn lit(s: &[u8]) -> Vec<Option<u8>> {
    s.iter().map(|b| Some(*b)).collect()
}

/// pattern from a template where `?` marks a wildcard position and other bytes are literal
fn tmpl(parts: &[(&[u8], usize)]) -> Vec<Option<u8>> {
    let mut v = Vec::new();
    for (l, w) in parts {
        v.extend(l.iter().map(|b| Some(*b)));
        v.extend(std::iter::repeat(None).take(*w));
    }
    v
}

pub fn signatures() -> Vec<Sig> {
    let mut v = Vec::new();
    for (name, verb) in [("http-get", "GET"), ("http-put", "PUT"), ("http-post", "POST"), ("http-head", "HEAD"), ("http-delete", "DELETE"), ("http-connect", "CONNECT"), ("http-options", "OPTIONS"), ("http-trace", "TRACE"), ("http-patch", "PATCH")] {
        v.push(Sig { name, proto: Proto::Http, pat: lit(format!("{} /", verb).as_bytes()), end_anchored: false });
    }
    // STUN binding request with RFC 5389 magic cookie: 00 01 ? ? 21 12 a4 42
    v.push(Sig { name: "stun-magic", proto: Proto::Stun, pat: tmpl(&[(&[0x00, 0x01], 2), (&[0x21, 0x12, 0xa4, 0x42], 0)]), end_anchored: false });
    // RFC 3489 binding request without attributes: 00 01 00 00 + 16 id bytes, end of datagram
    v.push(Sig { name: "stun-empty", proto: Proto::Stun, pat: tmpl(&[(&[0x00, 0x01, 0x00, 0x00], 16)]), end_anchored: true });
    // RFC 3489 binding request with a single CHANGE-REQUEST, end of datagram
    v.push(Sig { name: "stun-change-request", proto: Proto::Stun, pat: tmpl(&[(&[0x00, 0x01, 0x00, 0x08], 16), (&[0x00, 0x03, 0x00, 0x04, 0x00, 0x00, 0x00], 1)]), end_anchored: true });
    v.push(Sig { name: "ssh-2.0", proto: Proto::Ssh, pat: lit(b"SSH-2.0"), end_anchored: false });
    v.push(Sig { name: "ssh-1.99", proto: Proto::Ssh, pat: lit(b"SSH-1.99"), end_anchored: false });
    v.push(Sig { name: "gh0st", proto: Proto::Ghost, pat: lit(b"Gh0st"), end_anchored: false });
    // ONC-RPC call over TCP: record mark(4) xid(4) | msg type 0 | rpc version 00 00 00 ? | program 00 01 86 ? | version ???? | procedure 00 00 00 ?
    v.push(Sig { name: "rpc-tcp", proto: Proto::RpcTcp, pat: tmpl(&[(&[], 8), (&[0, 0, 0, 0, 0, 0, 0], 1), (&[0x00, 0x01, 0x86], 5), (&[0, 0, 0], 1)]), end_anchored: false });
    v.push(Sig { name: "rpc-udp", proto: Proto::RpcUdp, pat: tmpl(&[(&[], 4), (&[0, 0, 0, 0, 0, 0, 0], 1), (&[0x00, 0x01, 0x86], 5), (&[0, 0, 0], 1)]), end_anchored: false });
    // NetBIOS session message (type 0, flags 0, 2 length bytes) + SMB magic
    v.push(Sig { name: "smb1", proto: Proto::Smb1, pat: tmpl(&[(&[0x00, 0x00], 2), (&[0xff, b'S', b'M', b'B'], 0)]), end_anchored: false });
    v.push(Sig { name: "smb2", proto: Proto::Smb2, pat: tmpl(&[(&[0x00, 0x00], 2), (&[0xfe, b'S', b'M', b'B'], 0)]), end_anchored: false });
    v
}

#[derive(Clone, Debug, PartialEq)]
pub struct RefDecision {
    /// protocols of the signatures that complete first (ties possible), empty = none completes
    pub protos: Vec<Proto>,
    pub names: Vec<&'static str>,
    /// number of leading bytes consumed when the decision fell (completion position), or the
    /// position at which the last signature died
    pub at: usize,
    /// signatures X lost-able through wildcard shadowing on this input: at a wildcard position of
    /// X the byte equals the literal of another signature still alive (the known-finding predicate)
    pub excused: Vec<&'static str>,
    /// datagram equals an RPC signature minus its final (wildcard) byte
    pub eoi_as_wildcard: Option<Proto>,
}

/// Naive interpretation of the statement: the first signature completed by the leading bytes.
/// `datagram`: end anchors are decidable (end of input known).
pub fn ref_identify(data: &[u8], datagram: bool) -> RefDecision {
    let sigs = signatures();
    let mut alive: Vec<usize> = (0..sigs.len()).collect();
    let mut excused: Vec<&'static str> = Vec::new();
    let mut dec = RefDecision { protos: vec![], names: vec![], at: 0, excused: vec![], eoi_as_wildcard: None };
    for (q, b) in data.iter().enumerate() {
        // excuse bookkeeping (before filtering)
        for &x in &alive {
            if q < sigs[x].pat.len() && sigs[x].pat[q].is_none() {
                for &y in &alive {
                    if y != x && q < sigs[y].pat.len() && sigs[y].pat[q] == Some(*b) && !excused.contains(&sigs[x].name) {
                        excused.push(sigs[x].name);
                    }
                }
            }
        }
        alive.retain(|&x| q < sigs[x].pat.len() && sigs[x].pat[q].map(|l| l == *b).unwrap_or(true));
        let done: Vec<usize> = alive.iter().cloned().filter(|&x| sigs[x].pat.len() == q + 1 && !sigs[x].end_anchored).collect();
        if !done.is_empty() {
            dec.at = q + 1;
            for x in done {
                if !dec.protos.contains(&sigs[x].proto) {
                    dec.protos.push(sigs[x].proto);
                }
                dec.names.push(sigs[x].name);
            }
            dec.excused = excused;
            return dec;
        }
        if alive.is_empty() {
            dec.at = q + 1;
            dec.excused = excused;
            return dec;
        }
    }
    dec.at = data.len();
    if datagram {
        for &x in &alive {
            if sigs[x].end_anchored && sigs[x].pat.len() == data.len() {
                if !dec.protos.contains(&sigs[x].proto) {
                    dec.protos.push(sigs[x].proto);
                }
                dec.names.push(sigs[x].name);
            }
            if !sigs[x].end_anchored && sigs[x].pat.len() == data.len() + 1 && sigs[x].pat[data.len()].is_none() {
                dec.eoi_as_wildcard = Some(sigs[x].proto);
            }
        }
    }
    dec.excused = excused;
    dec
}

/// Dispatch-divergence filter (DESIGN.md section 3): is this payload inside a *listed* known
/// divergence of the compiled matcher from the reference (so that C13-C19 skip it and count it)?
/// True iff a signature that completes on this input carries the wildcard-shadowing excuse.
pub fn shadowed(data: &[u8], datagram: bool) -> bool {
    let d = ref_identify(data, datagram);
    d.names.iter().any(|n| d.excused.contains(n))
}
