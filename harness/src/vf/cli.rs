// Command line: parent orchestrator, worker, replay, selftest.

use std::collections::{BTreeMap, BTreeSet, HashSet};
use std::io::{Read, Write};
use std::path::{Path, PathBuf};
use std::process::{Child, Command, Stdio};
use std::time::{Duration, Instant};

use serde_json::{json, Value};

use super::engine::*;
use super::util::*;

fn verif_dir() -> PathBuf {
    if let Ok(d) = std::env::var("VERIF_DIR") {
        return PathBuf::from(d);
    }
    PathBuf::from("/verif")
}

/// where evidence, replays of failing runs and scratch files go (default: the verification dir)
fn out_dir() -> PathBuf {
    if let Ok(d) = std::env::var("VERIF_OUT_DIR") {
        return PathBuf::from(d);
    }
    verif_dir()
}

fn parse_tier(s: &str) -> Option<Tier> {
    match s {
        "quick" => Some(Tier::Quick),
        "thorough" => Some(Tier::Thorough),
        _ => None,
    }
}

fn seed_from_env() -> u64 {
    match std::env::var("VERIF_SEED") {
        Ok(s) => {
            let s = s.trim();
            if let Ok(v) = s.parse::<u64>() {
                v
            } else if let Ok(v) = s.parse::<i64>() {
                v as u64
            } else if let Some(h) = s.strip_prefix("0x") {
                u64::from_str_radix(h, 16).unwrap_or_else(|_| fnv(s.as_bytes()))
            } else {
                fnv(s.as_bytes())
            }
        }
        Err(_) => 0xC0FFEE,
    }
}

/// KNOWN_FINDINGS.txt: `known: property=C08 key=cookie-collision  free text`
pub fn load_known(prop: &str) -> BTreeMap<String, String> {
    let mut m = BTreeMap::new();
    let p = verif_dir().join("KNOWN_FINDINGS.txt");
    if let Ok(s) = std::fs::read_to_string(&p) {
        for line in s.lines() {
            let line = line.trim();
            if !line.starts_with("known:") {
                continue;
            }
            let rest = line["known:".len()..].trim();
            let mut it = rest.splitn(3, char::is_whitespace);
            let p1 = it.next().unwrap_or("");
            let rest2 = rest[p1.len()..].trim_start();
            if p1 != format!("property={}", prop) {
                continue;
            }
            // key= runs up to two consecutive spaces or end of line (keys may contain one space)
            if let Some(k) = rest2.strip_prefix("key=") {
                let (key, text) = match k.find("  ") {
                    Some(i) => (k[..i].trim().to_string(), k[i..].trim().to_string()),
                    None => (k.trim().to_string(), String::new()),
                };
                m.insert(key, text);
            }
        }
    }
    m
}

pub fn main() -> i32 {
    let args: Vec<String> = std::env::args().collect();
    if args.len() < 2 {
        eprintln!("usage: mverif check <ID> <quick|thorough> | worker ... | replay <ID> <path> | selftest | list");
        return 2;
    }
    match args[1].as_str() {
        "list" => {
            for p in super::props::all() {
                println!("{}", p.id());
            }
            0
        }
        "check" => {
            if args.len() < 4 {
                eprintln!("usage: mverif check <ID> <quick|thorough>");
                return 2;
            }
            let tier = match parse_tier(&args[3]) {
                Some(t) => t,
                None => {
                    eprintln!("bad tier {}", args[3]);
                    return 2;
                }
            };
            parent(&args[2], tier)
        }
        "worker" => worker(&args[2..]),
        "replay" => {
            if args.len() < 4 {
                eprintln!("usage: mverif replay <ID> <path>");
                return 2;
            }
            replay(&args[2], &args[3])
        }
        "selftest" => super::selftest::run(),
        "exec-frames" => super::sut::exec_frames_child(),
        "gen-fuzz-seeds" => {
            // development aid: golden inputs for the two libFuzzer targets
            let dir = args.get(2).cloned().unwrap_or_else(|| "/verif/seeds".to_string());
            super::fuzz::write_seeds(&dir)
        }
        "fuzz-replay" => {
            // mverif fuzz-replay <frames|stream> <file>: run one saved libFuzzer input (strict)
            super::sut::global_init();
            super::sut::capture_init();
            let data = match std::fs::read(args.get(3).map(|s| s.as_str()).unwrap_or("")) {
                Ok(d) => d,
                Err(e) => {
                    eprintln!("cannot read input: {}", e);
                    return 2;
                }
            };
            let r = if args.get(2).map(|s| s.as_str()) == Some("stream") { super::fuzz::stream_checked(&data) } else { super::fuzz::frames_checked(&data) };
            match r {
                Ok(n) => {
                    eprintln!("fuzz input holds ({} frames/streams judged)", n);
                    0
                }
                Err((p, m)) => {
                    eprintln!("VIOLATION property={} replay={}", p, args.get(3).cloned().unwrap_or_default());
                    eprintln!("  {}", m);
                    1
                }
            }
        }
        "find-underflow" => {
            // development aid: find a tuple whose SYN cookie is 0xFFFFFFFF under the given key
            let k0: u64 = args.get(2).and_then(|s| s.parse().ok()).unwrap_or(1);
            let k1: u64 = args.get(3).and_then(|s| s.parse().ok()).unwrap_or(2);
            let nt = 16u64;
            let span = (1u64 << 34) / nt;
            let handles: Vec<_> = (0..nt).map(|t| std::thread::spawn(move || super::props::c07::search_underflow([k0, k1], span * t, span))).collect();
            for h in handles {
                if let Ok(Some(u)) = h.join() {
                    println!("{}", serde_json::to_string(&u).unwrap_or_default());
                    return 0;
                }
            }
            1
        }
        other => {
            eprintln!("unknown mode {}", other);
            2
        }
    }
}

fn find_prop(id: &str) -> Option<Box<dyn Prop>> {
    super::props::all().into_iter().find(|p| p.id() == id)
}

// ---------------------------------------------------------------------------------------

fn replay(id: &str, path: &str) -> i32 {
    let prop = match find_prop(id) {
        Some(p) => p,
        None => {
            eprintln!("unknown property {}", id);
            return 2;
        }
    };
    super::sut::global_init();
    super::sut::capture_init();
    let raw = match std::fs::read(path) {
        Ok(t) => t,
        Err(e) => {
            eprintln!("cannot read {}: {}", path, e);
            return 2;
        }
    };
    let rf: ReplayFile = match std::str::from_utf8(&raw).ok().and_then(|t| serde_json::from_str(t).ok()) {
        Some(r) => r,
        None => {
            // not a JSON replay file: a saved libFuzzer input of this property's fuzz target
            return match super::fuzzrun::target_for(id) {
                Some(t) => {
                    let r = if t == "fz_stream" { super::fuzz::stream_checked(&raw) } else { super::fuzz::frames_checked(&raw) };
                    match r {
                        Ok(n) => {
                            eprintln!("replay {}: fuzz input holds ({} frames/streams judged)", path, n);
                            0
                        }
                        Err((p, m)) => {
                            eprintln!("VIOLATION property={} replay={}", p, path);
                            eprintln!("  {}", m);
                            1
                        }
                    }
                }
                None => {
                    eprintln!("cannot parse {} as a replay file", path);
                    2
                }
            };
        }
    };
    let known = load_known(id);
    // strict mode: known findings are reported too, but do not count as violations
    let mut st = Stats::new(BTreeSet::new());
    let r = prop.replay(&rf.stream, &rf.case, &mut st);
    let out = std::io::stderr();
    match r {
        Ok(()) => {
            let _ = writeln!(out.lock(), "replay {}: property {} holds on this case", path, id);
            0
        }
        Err(f) => {
            if let Some(k) = &f.key {
                if known.contains_key(k) {
                    let _ = writeln!(out.lock(), "KNOWN-FINDING: property={} key={} {}", id, k, f.msg);
                    return 0;
                }
            }
            let _ = writeln!(out.lock(), "VIOLATION property={} replay={}", id, path);
            let _ = writeln!(out.lock(), "  {}", f.msg);
            1
        }
    }
}

// ---------------------------------------------------------------------------------------

fn worker(a: &[String]) -> i32 {
    // worker <ID> <tier> <i> <W> <seed> <outfile> <profile>
    if a.len() < 7 {
        eprintln!("worker: bad arguments");
        return 2;
    }
    let id = a[0].clone();
    let tier = parse_tier(&a[1]).unwrap_or(Tier::Quick);
    let i: usize = a[2].parse().unwrap_or(0);
    let w: usize = a[3].parse().unwrap_or(1);
    let seed: u64 = a[4].parse().unwrap_or(0);
    let outfile = a[5].clone();
    let profile = a[6].clone();
    let prop = match find_prop(&id) {
        Some(p) => p,
        None => return 2,
    };
    super::sut::global_init();
    super::sut::capture_init();
    let known: BTreeSet<String> = load_known(&id).keys().cloned().collect();
    let mut st = Stats::new(known);
    // worker 0 first replays the committed regression cases of this property
    if i == 0 {
        let dir = verif_dir().join("replays").join("regress").join(&id);
        if let Ok(rd) = std::fs::read_dir(&dir) {
            let mut files: Vec<PathBuf> = rd.filter_map(|e| e.ok().map(|e| e.path())).filter(|p| p.extension().map(|x| x == "json").unwrap_or(false)).collect();
            files.sort();
            for p in files {
                let rf: ReplayFile = match std::fs::read_to_string(&p).ok().and_then(|t| serde_json::from_str(&t).ok()) {
                    Some(r) => r,
                    None => {
                        st.infra_errors.push(format!("unreadable regression case {}", p.display()));
                        continue;
                    }
                };
                st.class("regress-replayed");
                let r = std::panic::catch_unwind(std::panic::AssertUnwindSafe(|| prop.replay(&rf.stream, &rf.case, &mut st)));
                match r {
                    Err(_) => st.infra_errors.push(format!("harness panic replaying {}", p.display())),
                    Ok(r) => {
                        if let Err(f) = st.judge(r) {
                            st.found.push(Found { case: rf.case.clone(), failure: Failure { key: f.key, msg: format!("regression {}: {}", p.file_name().unwrap().to_string_lossy(), f.msg) }, stream: rf.stream.clone() });
                        }
                    }
                }
            }
        }
    }
    {
        let mut ctx = RunCtx { id: prop.id(), tier, worker: i, nworkers: w, seed, st: &mut st };
        let r = std::panic::catch_unwind(std::panic::AssertUnwindSafe(|| prop.run(&mut ctx)));
        if r.is_err() {
            st.infra_errors.push("harness panic in Prop::run".to_string());
        }
    }
    st.set_extra("profile", json!(profile));
    // write hashes + stats
    let mut hb = Vec::with_capacity(st.nontrivial.len() * 8);
    for h in &st.nontrivial {
        hb.extend_from_slice(&h.to_le_bytes());
    }
    if std::fs::write(format!("{}.hashes", outfile), &hb).is_err() {
        return 2;
    }
    let js = match serde_json::to_vec(&st) {
        Ok(j) => j,
        Err(_) => return 2,
    };
    if std::fs::write(&outfile, &js).is_err() {
        return 2;
    }
    0
}

// ---------------------------------------------------------------------------------------

struct Running {
    child: Child,
    out: String,
    profile: String,
    idx: usize,
}

fn parent(id: &str, tier: Tier) -> i32 {
    let t0 = Instant::now();
    let prop = match find_prop(id) {
        Some(p) => p,
        None => {
            eprintln!("unknown property {}", id);
            return 2;
        }
    };
    let seed = seed_from_env();
    let vdir = out_dir();
    let work = vdir.join(".work").join(format!("{}-{}", id, std::process::id()));
    let _ = std::fs::remove_dir_all(&work);
    if std::fs::create_dir_all(&work).is_err() {
        eprintln!("cannot create {}", work.display());
        return 2;
    }
    let ncpu = std::thread::available_parallelism().map(|n| n.get()).unwrap_or(4);
    let w: usize = std::env::var("VERIF_WORKERS").ok().and_then(|s| s.parse().ok()).unwrap_or(ncpu.min(16)).max(1);
    let me = std::env::current_exe().unwrap_or_else(|_| PathBuf::from("/verif/harness/target/release/mverif"));
    let mut bins: Vec<(String, PathBuf)> = vec![("release".to_string(), me)];
    if prop.wants_relcheck(tier) {
        if let Ok(p) = std::env::var("VERIF_RELCHECK_BIN") {
            if Path::new(&p).exists() {
                bins.push(("relcheck".to_string(), PathBuf::from(p)));
            }
        }
    }
    let mut running: Vec<Running> = Vec::new();
    for (profile, bin) in &bins {
        for i in 0..w {
            let out = work.join(format!("{}-{}.json", profile, i)).to_string_lossy().to_string();
            let child = Command::new(bin)
                .args(["worker", id, tier.name(), &i.to_string(), &w.to_string(), &seed.to_string(), &out, profile])
                .stdin(Stdio::null())
                .stdout(Stdio::null())
                .stderr(Stdio::inherit())
                .spawn();
            match child {
                Ok(c) => running.push(Running { child: c, out, profile: profile.clone(), idx: i }),
                Err(e) => {
                    eprintln!("cannot spawn worker: {}", e);
                    for r in running.iter_mut() {
                        let _ = r.child.kill();
                    }
                    return 2;
                }
            }
        }
    }
    let budget = Duration::from_secs(std::env::var("VERIF_WATCHDOG_S").ok().and_then(|s| s.parse().ok()).unwrap_or(tier.n(900, 7200)));
    let mut infra: Vec<String> = Vec::new();
    let mut done = vec![false; running.len()];
    loop {
        let mut all = true;
        for (k, r) in running.iter_mut().enumerate() {
            if done[k] {
                continue;
            }
            match r.child.try_wait() {
                Ok(Some(status)) => {
                    done[k] = true;
                    if !status.success() {
                        infra.push(format!("worker {}/{} ended abnormally: {}", r.profile, r.idx, status));
                    }
                }
                Ok(None) => all = false,
                Err(e) => {
                    done[k] = true;
                    infra.push(format!("wait failed: {}", e));
                }
            }
        }
        if all {
            break;
        }
        if t0.elapsed() > budget {
            for r in running.iter_mut() {
                let _ = r.child.kill();
                let _ = r.child.wait();
            }
            println!("INCONCLUSIVE property={} watchdog: workers exceeded {} s", id, budget.as_secs());
            let _ = std::fs::remove_dir_all(&work);
            return 2;
        }
        std::thread::sleep(Duration::from_millis(20));
    }
    // merge
    let known = load_known(id);
    let mut total = Stats::new(BTreeSet::new());
    let mut hashes: HashSet<u64> = HashSet::new();
    let mut profiles: BTreeMap<String, u64> = BTreeMap::new();
    for r in &running {
        let st: Stats = match std::fs::read(&r.out).ok().and_then(|b| serde_json::from_slice(&b).ok()) {
            Some(s) => s,
            None => {
                infra.push(format!("worker {}/{} left no result", r.profile, r.idx));
                continue;
            }
        };
        if let Ok(hb) = std::fs::read(format!("{}.hashes", r.out)) {
            for c in hb.chunks_exact(8) {
                let mut a = [0u8; 8];
                a.copy_from_slice(c);
                hashes.insert(u64::from_le_bytes(a));
            }
        }
        *profiles.entry(r.profile.clone()).or_insert(0) += st.evaluations;
        total.evaluations += st.evaluations;
        total.frames += st.frames;
        for (k, v) in st.classes {
            *total.classes.entry(k).or_insert(0) += v;
        }
        for (k, v) in st.excluded {
            *total.excluded.entry(k).or_insert(0) += v;
        }
        for (k, v) in st.known_seen {
            let e = total.known_seen.entry(k).or_insert((0, v.1.clone()));
            e.0 += v.0;
        }
        for s in st.samples {
            if total.samples.len() < 6 {
                total.samples.push(s);
            }
        }
        for (k, v) in st.extra {
            if k == "profile" {
                continue;
            }
            match (total.extra.get(&k).and_then(|x| x.as_u64()), v.as_u64()) {
                (Some(a), Some(b)) if !k.starts_with("const_") => {
                    total.extra.insert(k, json!(a + b));
                }
                _ => {
                    total.extra.insert(k, v);
                }
            }
        }
        for p in st.exhaustive_parts {
            if !total.exhaustive_parts.contains(&p) {
                total.exhaustive_parts.push(p);
            }
        }
        for f in st.found {
            total.found.push(f);
        }
        for e in st.infra_errors {
            infra.push(format!("[{}/{}] {}", r.profile, r.idx, e));
        }
    }
    // thorough tier: coverage-guided campaign (E3) for the properties that have a fuzz target
    let mut fuzz_violations: Vec<(String, String, PathBuf)> = Vec::new();
    let mut fuzz_notes: Vec<String> = Vec::new();
    if (tier == Tier::Thorough || std::env::var("VERIF_FUZZ").is_ok()) && super::fuzzrun::target_for(id).is_some() && std::env::var("VERIF_NO_FUZZ").is_err() {
        super::sut::global_init();
        super::sut::capture_init();
        let runs: u64 = std::env::var("VERIF_FUZZ_RUNS").ok().and_then(|s| s.parse().ok()).unwrap_or(match id {
            "C01" => 600_000,
            "C11" => 150_000,
            _ => 250_000,
        });
        let fo = super::fuzzrun::run(id, seed, &verif_dir(), &work, runs, w);
        total.evaluations += fo.executed;
        total.extra.insert("fuzz".into(), fo.evidence);
        for (p, m, path) in fo.violations {
            if p == id {
                fuzz_violations.push((p, m, path));
            } else {
                fuzz_notes.push(format!("the {} campaign found a violation of {} (not the property being checked; run ./check {} thorough): {} [{}]", super::fuzzrun::target_for(id).unwrap_or(""), p, p, truncate(&m, 300), path.display()));
            }
        }
        for e in fo.infra {
            infra.push(e);
        }
        super::sut::capture_release();
    }
    let _ = std::fs::remove_dir_all(&work);
    let _ = std::fs::remove_dir(vdir.join(".work"));

    // verdict
    let mut code = 0;
    for n in &fuzz_notes {
        println!("NOTE property={} {}", id, n);
    }
    let mut fuzz_seen = HashSet::new();
    for (p, m, path) in &fuzz_violations {
        if !fuzz_seen.insert(truncate(m, 60)) {
            continue;
        }
        println!("VIOLATION property={} replay={}", p, path.display());
        println!("  stream=fuzz key=None");
        println!("  {}", truncate(m, 1500));
        code = 1;
    }
    for (k, (n, msg)) in &total.known_seen {
        let text = known.get(k).cloned().unwrap_or_default();
        println!("KNOWN-FINDING: property={} key={} {} [seen {}x, e.g. {}]", id, k, text, n, truncate(msg, 300));
    }
    // de-duplicate violations by (key,msg-prefix)
    let mut seen = HashSet::new();
    let mut nviol = 0;
    for f in &total.found {
        let sig = format!("{:?}|{}", f.failure.key, truncate(&f.failure.msg, 80));
        if !seen.insert(sig) {
            continue;
        }
        nviol += 1;
        let rf = ReplayFile { property: id.to_string(), stream: f.stream.clone(), case: f.case.clone(), verdict: f.failure.msg.clone(), key: f.failure.key.clone() };
        let body = serde_json::to_string_pretty(&rf).unwrap_or_default();
        let dir = vdir.join("replays").join(id);
        let _ = std::fs::create_dir_all(&dir);
        let path = dir.join(format!("{:016x}.json", fnv(serde_json::to_string(&f.case).unwrap_or_default().as_bytes())));
        let _ = std::fs::write(&path, body);
        println!("VIOLATION property={} replay={}", id, path.display());
        println!("  stream={} key={:?}", f.stream, f.failure.key);
        println!("  {}", truncate(&f.failure.msg, 1500));
        code = 1;
    }
    nviol += fuzz_seen.len();
    for e in &infra {
        println!("INFRA property={} {}", id, truncate(e, 600));
    }
    if code == 0 && !infra.is_empty() {
        code = 2;
    }
    let wall = t0.elapsed().as_secs_f64();
    // evidence
    let mut cov = serde_json::Map::new();
    cov.insert("evaluations".into(), json!(total.evaluations));
    cov.insert("distinct_nontrivial".into(), json!(hashes.len()));
    cov.insert("rule".into(), json!(prop.rule()));
    cov.insert("samples".into(), json!(total.samples));
    cov.insert("frames".into(), json!(total.frames));
    cov.insert("classes".into(), json!(total.classes));
    cov.insert("excluded".into(), json!(total.excluded));
    cov.insert("exhaustive".into(), json!(false));
    cov.insert("exhaustive_parts".into(), json!(total.exhaustive_parts));
    cov.insert("profiles".into(), json!(profiles));
    cov.insert("workers".into(), json!(w));
    let ks: BTreeMap<String, u64> = total.known_seen.iter().map(|(k, v)| (k.clone(), v.0)).collect();
    cov.insert("known_findings_seen".into(), json!(ks));
    for (k, v) in &total.extra {
        cov.insert(k.clone(), v.clone());
    }
    let mut assumptions = prop.assumptions();
    assumptions.push("the harness include!s /repo/src/masscanned.rs and repeats /repo/Cargo.toml's dependency list; a change of dependency versions in /repo/Cargo.toml is not picked up".into());
    assumptions.push("hooks (cfg ivre_masscanned_verif) are read-only probes plus a connection-table reset".into());
    let ev = json!({
        "property_id": id,
        "tier": tier.name(),
        "seed": seed,
        "level": "exploration",
        "coverage": Value::Object(cov),
        "assumptions": assumptions,
        "wall_s": wall,
        "violations": nviol,
        "inconclusive": code == 2,
    });
    let edir = vdir.join("evidence");
    let _ = std::fs::create_dir_all(&edir);
    if std::fs::write(edir.join(format!("{}.json", id)), serde_json::to_string_pretty(&ev).unwrap_or_default()).is_err() {
        println!("INFRA property={} cannot write evidence", id);
        if code == 0 {
            code = 2;
        }
    }
    println!(
        "{} {} seed={} evaluations={} distinct_nontrivial={} frames={} violations={} known_seen={} wall={:.1}s -> exit {}",
        id,
        tier.name(),
        seed,
        total.evaluations,
        hashes.len(),
        total.frames,
        nviol,
        total.known_seen.len(),
        wall,
        code
    );
    code
}

fn truncate(s: &str, n: usize) -> String {
    if s.len() <= n {
        s.to_string()
    } else {
        let mut e = n;
        while !s.is_char_boundary(e) {
            e -= 1;
        }
        format!("{}…", &s[..e])
    }
}
