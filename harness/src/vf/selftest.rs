// Self-test of the harness's own codec against pnet and a few literal packets from
// masscanned's unit tests (the trusted base is kept honest; not a property check).

use super::codec::*;
use super::util::*;
use std::net::{IpAddr, Ipv4Addr, Ipv6Addr};

pub fn run() -> i32 {
    let mut bad = 0;
    // literal from layer_2 test: IP(src="3.2.1.0", dst="170.153.136.119")/ICMP()
    let lit = b"E\x00\x00\x1c\x00\x01\x00\x00@\x01C\xce\x03\x02\x01\x00\xaa\x99\x88w\x08\x00\xf7\xff\x00\x00\x00\x00";
    let mut h = Ip4H::new([3, 2, 1, 0], [0xaa, 0x99, 0x88, 0x77], 1);
    h.id = 1;
    let mine = ip4(&h, &icmp4(8, 0, &[0, 0, 0, 0]));
    if mine != lit.to_vec() {
        eprintln!("selftest: IPv4/ICMP builder differs from scapy literal:\n {}\n {}", hex(&mine), hex(lit));
        bad += 1;
    }
    // checksums vs pnet
    use pnet::packet::tcp::{ipv4_checksum, ipv6_checksum, TcpPacket};
    let s4 = IpAddr::V4(Ipv4Addr::new(10, 1, 2, 3));
    let d4 = IpAddr::V4(Ipv4Addr::new(192, 168, 7, 9));
    let s6 = IpAddr::V6(Ipv6Addr::new(0x2001, 0xdb8, 0, 0, 0, 0, 0, 1));
    let d6 = IpAddr::V6(Ipv6Addr::new(0xfe80, 0, 0, 0, 1, 2, 3, 4));
    for n in [0usize, 1, 2, 3, 17, 100, 1459] {
        let payload: Vec<u8> = (0..n).map(|i| (i * 7 + 3) as u8).collect();
        let seg = tcp_seg(&s4, &d4, &TcpH::new(1234, 80, 1, 2, F_PSH | F_ACK), &payload);
        let p = TcpPacket::new(&seg).unwrap();
        let mut z = seg.clone();
        z[16] = 0;
        z[17] = 0;
        let pz = TcpPacket::new(&z).unwrap();
        if let (IpAddr::V4(a), IpAddr::V4(b)) = (&s4, &d4) {
            if ipv4_checksum(&pz, a, b) != p.get_checksum() {
                eprintln!("selftest: TCP/IPv4 checksum differs from pnet for n={}", n);
                bad += 1;
            }
        }
        let seg6 = tcp_seg(&s6, &d6, &TcpH::new(1234, 80, 1, 2, F_PSH | F_ACK), &payload);
        let p6 = TcpPacket::new(&seg6).unwrap();
        let mut z6 = seg6.clone();
        z6[16] = 0;
        z6[17] = 0;
        let pz6 = TcpPacket::new(&z6).unwrap();
        if let (IpAddr::V6(a), IpAddr::V6(b)) = (&s6, &d6) {
            if ipv6_checksum(&pz6, a, b) != p6.get_checksum() {
                eprintln!("selftest: TCP/IPv6 checksum differs from pnet for n={}", n);
                bad += 1;
            }
        }
        // decode what we built, as if it were a reply
        let net = Net { cmac: [2, 0, 0, 0, 0, 1], dmac: [2, 0, 0, 0, 0, 2], cip: s4, sip: d4 };
        let f = tcp_frame(&net, &TcpH::new(1234, 80, 1, 2, F_PSH | F_ACK), &payload);
        match decode_reply(&f) {
            Ok(d) => {
                if !d.problems.is_empty() || d.tcp().map(|t| t.payload.clone()) != Some(payload.clone()) {
                    eprintln!("selftest: own TCP frame does not decode cleanly: {:?}", d.problems);
                    bad += 1;
                }
            }
            Err(e) => {
                eprintln!("selftest: {}", e);
                bad += 1;
            }
        }
        let net6 = Net { cmac: [2, 0, 0, 0, 0, 1], dmac: [2, 0, 0, 0, 0, 2], cip: s6, sip: d6 };
        for f in [udp_frame(&net, 53, 5353, &payload), udp_frame(&net6, 53, 5353, &payload), echo_frame(&net, 1, 2, &payload), echo_frame(&net6, 1, 2, &payload)] {
            match decode_reply(&f) {
                Ok(d) if d.problems.is_empty() => {}
                Ok(d) => {
                    eprintln!("selftest: own frame not WF: {:?}", d.problems);
                    bad += 1;
                }
                Err(e) => {
                    eprintln!("selftest: {}", e);
                    bad += 1;
                }
            }
        }
    }
    if bad == 0 {
        eprintln!("selftest ok");
        0
    } else {
        2
    }
}
