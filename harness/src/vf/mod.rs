#[macro_use]
pub mod engine;
pub mod fuzz;
pub mod fuzzrun;
pub mod answerable;
pub mod cli;
pub mod codec;
pub mod dec_app;
pub mod sig;
pub mod gen;
pub mod normalise;
pub mod gen_app;
pub mod props;
pub mod selftest;
pub mod session;
pub mod sut;
pub mod traffic;
pub mod util;
