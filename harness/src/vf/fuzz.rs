// Bodies of the libFuzzer targets (E3). They live in the harness crate so that saved inputs can
// be replayed by `mverif replay` without the fuzzing runtime; /verif/fuzz/fuzz_targets/*.rs are
// thin wrappers.
//
// fz_frames: bytes -> (configuration selector, up to 12 frame records). Each record is
//   [template u8][flow u8][len u16 LE][body]; templates wrap `body` so that the destination-MAC
//   gate, IP filters and the cookie check are satisfied BY CONSTRUCTION (raw-byte fuzzing stalls
//   at the MAC gate) and coverage feedback is spent on the parsers. Oracles inside the target:
//   no panic (C01); every reply decodes as exactly one well-formed frame (C04) whose
//   address/port tuple mirrors the request's (C03); a reply exists only for frames in scope and
//   comes from a handled address (C02); the connection table holds exactly the flows that sent a
//   data segment acknowledging cookie+1 (C09, cookies learned from the responder's SYN-ACKs);
//   the event log of every frame is balanced, nested, faithful (C20's judge, all three loggers);
//   every application reply obeys its protocol's reply format and echoes what it must (C13-C18).
// fz_stream: bytes -> (protocol selector, stream, cut positions); C11's relation between the
//   unsplit delivery, the finest delivery and the given segmentation.
//
// A violated oracle panics with a message starting with "VERIF-VIOLATION <property>:".

use std::net::{IpAddr, Ipv4Addr, Ipv6Addr};

use super::answerable::mirror_check;
use super::codec::*;
use super::normalise::normalise_app;
use super::session::*;
use super::sut::*;
use super::util::*;

fn cfg_from(sel: u8, sel2: u8) -> (Cfg, Net) {
    let mac = [0x02, 0x42, 0xac, 0x11, 0x00, 0x02];
    let v4 = sel & 1 == 0;
    let cip4 = Ipv4Addr::new(198, 51, 100, 7);
    let sip4 = Ipv4Addr::new(203, 0, 113, 9);
    let cip6 = Ipv6Addr::new(0x2001, 0xdb8, 0, 1, 0, 0, 0, 7);
    let sip6 = Ipv6Addr::new(0x2001, 0xdb8, 0, 2, 0, 0, 0, 9);
    let mut cfg = Cfg::plain(mac);
    if sel & 2 != 0 {
        cfg.self_ips = Some(vec![IpAddr::V4(sip4), IpAddr::V6(sip6), IpAddr::V4(Ipv4Addr::new(203, 0, 113, 10))]);
    }
    if sel & 4 != 0 {
        cfg.deny = Some(vec![IpAddr::V4(Ipv4Addr::new(192, 0, 2, 66)), IpAddr::V6(Ipv6Addr::new(0x2001, 0xdb8, 0, 0xbad, 0, 0, 0, 1))]);
    }
    cfg.logger = match (sel >> 3) & 3 {
        0 => LoggerKind::None,
        1 => LoggerKind::Console,
        2 => LoggerKind::Logfmt,
        _ => LoggerKind::Struct,
    };
    cfg.level = sel2 % 6;
    let dmac = match (sel >> 5) & 3 {
        1 => BCAST,
        2 => ALLNODES,
        _ => mac,
    };
    let net = if v4 {
        Net { cmac: [2, 0, 0, 0, 0, 9], dmac, cip: IpAddr::V4(cip4), sip: IpAddr::V4(sip4) }
    } else {
        Net { cmac: [2, 0, 0, 0, 0, 9], dmac, cip: IpAddr::V6(cip6), sip: IpAddr::V6(sip6) }
    };
    (cfg, net)
}

// ---------------------------------------------------------------------------------------
// further oracles embedded in fz_frames

enum Validates {
    Yes(Vec<u8>),
    No,
    Unknown,
}

struct TableModel {
    validated: std::collections::HashSet<Vec<u8>>,
    cookies: std::collections::HashMap<Vec<u8>, Option<u32>>,
    unknown: usize,
}

impl TableModel {
    /// C09's rule for one frame: a TCP segment with PSH and ACK whose acknowledgement number is
    /// the cookie of its 4-tuple + 1 validates the flow — provided the frame is in scope and its
    /// header fields agree with the bytes present (otherwise: Unknown)
    fn validates(&mut self, sut: &Sut, cfg: &Cfg, f: &[u8]) -> Validates {
        let v = match view_request(f) {
            Some(v) => v,
            None => return Validates::No,
        };
        if !super::gen::auth_macs(cfg).contains(&v.dst) {
            return Validates::No;
        }
        let ip = match &v.ip {
            Some(ip) => ip,
            None => return Validates::No,
        };
        if ip.proto != P_TCP {
            return Validates::No;
        }
        let p = &f[14..];
        let consistent = if ip.v == 4 {
            p[0] >> 4 == 4 && (p[0] & 0x0f) >= 5 && be16(p, 2) as usize == p.len() && ((p[0] & 0x0f) as usize) * 4 <= p.len()
        } else {
            p[0] >> 4 == 6 && be16(p, 4) as usize + 40 == p.len()
        };
        if ip.l4.len() < 20 {
            return if consistent { Validates::No } else { Validates::Unknown };
        }
        let doff = (ip.l4[12] >> 4) as usize * 4;
        if !consistent || doff < 20 || doff > ip.l4.len() {
            return Validates::Unknown;
        }
        if !cfg.in_self(&ip.dst) || cfg.denied(&ip.src) {
            return Validates::No;
        }
        let flags = ip.l4[13];
        if flags & 0x18 != 0x18 {
            return Validates::No;
        }
        let mut key = ip_octets(&ip.src);
        key.extend_from_slice(&ip_octets(&ip.dst));
        key.extend_from_slice(&ip.l4[0..4]);
        if self.validated.contains(&key) {
            return Validates::No;
        }
        let cookie = match self.cookies.get(&key) {
            Some(c) => *c,
            None => {
                let flow = Flow { net: Net { cmac: v.src, dmac: v.dst, cip: ip.src, sip: ip.dst }, sport: be16(&ip.l4, 0), dport: be16(&ip.l4, 2) };
                let c = learn_cookie(sut, &flow, 7).ok();
                self.cookies.insert(key.clone(), c);
                c
            }
        };
        match cookie {
            Some(c) if be32(&ip.l4, 8) == c.wrapping_add(1) => Validates::Yes(key),
            _ => Validates::No,
        }
    }
}

/// C02: a reply exists only for frames in scope, and comes from a handled address
fn scope_check(cfg: &Cfg, f: &[u8], r: &[u8]) -> Result<(), String> {
    let v = match view_request(f) {
        Some(v) => v,
        None => return Err("a frame shorter than an Ethernet header was answered".into()),
    };
    let tail = || format!("(request {} reply {})", hex(&f[..f.len().min(120)]), hex(&r[..r.len().min(120)]));
    if !super::gen::auth_macs(cfg).contains(&v.dst) {
        return Err(format!("frame to the unauthorised destination MAC {} was answered {}", hex(&v.dst), tail()));
    }
    if ![ET_ARP, ET_V4, ET_V6].contains(&v.ethertype) {
        return Err(format!("frame with EtherType {:#06x} was answered {}", v.ethertype, tail()));
    }
    if let Some(ip) = &v.ip {
        if cfg.denied(&ip.src) {
            return Err(format!("frame from the denied address {} was answered {}", ip.src, tail()));
        }
        let ok = if ip.v == 4 { [P_ICMP, P_TCP, P_UDP].contains(&ip.proto) } else { [P_ICMP6, P_TCP, P_UDP].contains(&ip.proto) };
        if !ok {
            return Err(format!("IP protocol / next header {} was answered {}", ip.proto, tail()));
        }
    }
    if let (Some(s), Ok(d)) = (&cfg.self_ips, decode_reply(r)) {
        match &d.l3 {
            L3D::Arp(a, _) => {
                let spa = IpAddr::V4(Ipv4Addr::from(a.spa));
                if !s.contains(&spa) {
                    return Err(format!("ARP reply advertises {} which is not on the self-IP list {}", spa, tail()));
                }
            }
            L3D::Ip(ip) => {
                if !s.contains(&ip.src) {
                    return Err(format!("reply sourced from {} which is not on the self-IP list {}", ip.src, tail()));
                }
                if let L4D::Icmp6 { typ: 136, rest, .. } = &ip.l4 {
                    if rest.len() >= 20 {
                        let mut t = [0u8; 16];
                        t.copy_from_slice(&rest[4..20]);
                        let ta = IpAddr::V6(Ipv6Addr::from(t));
                        if !s.contains(&ta) {
                            return Err(format!("neighbour advertisement for {} which is not on the self-IP list {}", ta, tail()));
                        }
                    }
                }
            }
            L3D::Other => {}
        }
    }
    Ok(())
}

/// Reply invariants of the application protocols (C13-C18): whatever the request was, a reply
/// that is recognisably protocol X's obeys X's reply format; where the request is in the same
/// datagram / segment, the echoed fields are compared too. Err = (property, message).
fn app_invariants(req: &[u8], rep: &[u8], tcp: bool, src: &IpAddr, sport: u16, dst: &IpAddr) -> Result<(), (String, String)> {
    use super::dec_app::*;
    let tail = || format!("(request payload {} reply payload {})", hex(&req[..req.len().min(100)]), hex(&rep[..rep.len().min(100)]));
    match classify_reply(rep, tcp) {
        Responder::Http => {
            let r = parse_http_response(rep).map_err(|e| ("C13".to_string(), format!("HTTP response does not parse: {} {}", e, tail())))?;
            if !r.status_line.starts_with("HTTP/1.1 401") {
                return Err(("C13".into(), format!("status line {:?} {}", r.status_line, tail())));
            }
            if !r.header("WWW-Authenticate").map(|v| !v.is_empty()).unwrap_or(false) {
                return Err(("C13".into(), format!("no WWW-Authenticate challenge {}", tail())));
            }
            let cl: usize = r.header("Content-Length").and_then(|v| v.parse().ok()).unwrap_or(usize::MAX);
            if cl != r.body.len() {
                return Err(("C13".into(), format!("Content-Length {} but {} body bytes {}", cl, r.body.len(), tail())));
            }
        }
        Responder::Ssh => {
            if rep != b"SSH-2.0-1\r\n" {
                return Err(("C18".into(), format!("SSH answer is not exactly the banner {}", tail())));
            }
        }
        Responder::Ghost => {
            super::props::c18::ghost_reply_ok(rep).map_err(|f| ("C18".to_string(), format!("{} {}", f.msg, tail())))?;
        }
        Responder::Stun => {
            let m = parse_stun(rep).map_err(|e| ("C15".to_string(), format!("STUN response does not parse: {} {}", e, tail())))?;
            if req.len() >= 20 && m.tid[..] != req[4..20] {
                return Err(("C15".into(), format!("transaction id not echoed {}", tail())));
            }
            let ma: Vec<&(u16, Vec<u8>)> = m.attrs.iter().filter(|(t, _)| *t == 1).collect();
            if ma.len() != 1 {
                return Err(("C15".into(), format!("{} MAPPED-ADDRESS attributes {}", ma.len(), tail())));
            }
            let (fam, port, addr) = parse_mapped_address(&ma[0].1).map_err(|e| ("C15".to_string(), format!("{} {}", e, tail())))?;
            if fam != if src.is_ipv4() { 1 } else { 2 } || port != sport || addr != *src {
                return Err(("C15".into(), format!("MAPPED-ADDRESS {}/{}:{} is not the request's source {}:{} {}", fam, addr, port, src, sport, tail())));
            }
        }
        Responder::Dns => {
            if tcp || req.len() < 12 {
                return Ok(());
            }
            if rep[0..2] != req[0..2] {
                return Err(("C14".into(), format!("DNS id not echoed {}", tail())));
            }
            if let (Ok(m), IpAddr::V4(d4)) = (parse_dns(rep), dst) {
                if m.answers.len() != m.questions.len() {
                    return Err(("C14".into(), format!("{} answers for {} questions {}", m.answers.len(), m.questions.len(), tail())));
                }
                for rr in &m.answers {
                    if rr.typ != 1 || rr.class != 1 || rr.rdata != d4.octets() {
                        return Err(("C14".into(), format!("answer record type {} class {} rdata {:?} (queried address {}) {}", rr.typ, rr.class, rr.rdata, d4, tail())));
                    }
                }
            }
        }
        Responder::Rpc => {
            let body = if rpc_record_marked(rep) { &rep[4..] } else { rep };
            if body.len() % 4 != 0 {
                return Err(("C16".into(), format!("RPC reply length {} is not a multiple of 4 {}", body.len(), tail())));
            }
            if !tcp {
                let rx = if rpc_record_marked(rep) { 4 } else { 0 };
                if req.len() >= rx + 4 && body.len() >= 4 && body[0..4] != req[rx..rx + 4] {
                    return Err(("C16".into(), format!("XID not echoed {}", tail())));
                }
            }
        }
        Responder::Smb => {
            let nb = (((rep[1] & 1) as usize) << 16) | be16(rep, 2) as usize;
            if nb != rep.len() - 4 {
                return Err(("C17".into(), format!("NetBIOS length {} but {} bytes follow {}", nb, rep.len() - 4, tail())));
            }
            let ok = if &rep[4..8] == b"\xffSMB" { rep.len() >= 14 && rep[13] & 0x80 != 0 } else { rep.len() >= 24 && le32(rep, 4 + 16) & 1 != 0 };
            if !ok {
                return Err(("C17".into(), format!("SMB answer without the reply flag {}", tail())));
            }
        }
        Responder::Unknown => {}
    }
    Ok(())
}

fn violation(prop: &str, msg: String) -> ! {
    // the harness's panic hook is silent: print first
    eprintln!("VERIF-VIOLATION {}: {}", prop, msg);
    panic!("VERIF-VIOLATION {}: {}", prop, msg)
}

/// Err(text) on violation when `soft` (replay mode); panics otherwise (fuzzing mode)
pub fn frames(data: &[u8]) {
    if let Err(e) = frames_checked(data) {
        violation(&e.0, e.1);
    }
}

pub fn frames_checked(data: &[u8]) -> Result<u64, (String, String)> {
    if data.len() < 2 {
        return Ok(0);
    }
    Sut::reset();
    let (cfg, net) = cfg_from(data[0], data[1]);
    let sut = Sut::new(&cfg);
    let mut cookies: [Option<u32>; 4] = [None; 4];
    let mut seqs: [u32; 4] = [100; 4];
    let mut model = TableModel { validated: std::collections::HashSet::new(), cookies: std::collections::HashMap::new(), unknown: 0 };
    let logging = cfg.logger == LoggerKind::Console || cfg.logger == LoggerKind::Logfmt;
    let mut i = 2usize;
    let mut nframes = 0u64;
    while i + 4 <= data.len() && nframes < 12 {
        let t = data[i];
        let k = (data[i + 1] & 3) as usize;
        let l = (le16(data, i + 2) as usize).min(data.len() - i - 4).min(4096);
        let body = &data[i + 4..i + 4 + l];
        i += 4 + l;
        let flow = Flow { net: net.clone(), sport: 40000 + k as u16, dport: 80 + (data[1] as u16 % 3) };
        let frame: Vec<u8> = match t % 12 {
            0 => body.to_vec(),
            1 => {
                let et = if body.len() >= 2 { be16(body, 0) } else { ET_V4 };
                eth(&net.dmac, &net.cmac, et, if body.len() >= 2 { &body[2..] } else { &[] })
            }
            2 => eth(&net.dmac, &net.cmac, ET_ARP, body),
            3 => {
                let proto = body.first().cloned().unwrap_or(P_UDP);
                ip_frame(&net, proto, if body.is_empty() { &[] } else { &body[1..] })
            }
            4 => {
                // the other IP family with synthetic addresses
                let n2 = if net.is_v4() {
                    Net { cmac: net.cmac, dmac: net.dmac, cip: IpAddr::V6(Ipv6Addr::new(0x2001, 0xdb8, 0, 1, 0, 0, 0, 7)), sip: IpAddr::V6(Ipv6Addr::new(0x2001, 0xdb8, 0, 2, 0, 0, 0, 9)) }
                } else {
                    Net { cmac: net.cmac, dmac: net.dmac, cip: IpAddr::V4(Ipv4Addr::new(198, 51, 100, 7)), sip: IpAddr::V4(Ipv4Addr::new(203, 0, 113, 9)) }
                };
                let proto = body.first().cloned().unwrap_or(P_UDP);
                ip_frame(&n2, proto, if body.is_empty() { &[] } else { &body[1..] })
            }
            5 => {
                let (ty, co) = (body.first().cloned().unwrap_or(8), body.get(1).cloned().unwrap_or(0));
                let rest = if body.len() > 2 { &body[2..] } else { &[][..] };
                if net.is_v4() {
                    ip_frame(&net, P_ICMP, &icmp4(ty, co, rest))
                } else {
                    ip_frame(&net, P_ICMP6, &icmp6(&net.cip, &net.sip, ty, co, rest))
                }
            }
            6 => {
                let (sp, dp) = if body.len() >= 4 { (be16(body, 0), be16(body, 2)) } else { (5353, 53) };
                udp_frame(&net, sp, dp, if body.len() >= 4 { &body[4..] } else { &[] })
            }
            7 => flow.syn(99),
            8 => {
                if cookies[k].is_none() {
                    cookies[k] = learn_cookie(&sut, &flow, 99).ok();
                }
                let c = cookies[k].unwrap_or(0);
                let f = flow.data(seqs[k], c.wrapping_add(1), body);
                seqs[k] = seqs[k].wrapping_add(body.len() as u32);
                f
            }
            9 => {
                let flags = if body.len() >= 2 { be16(body, 0) & 0xfff } else { F_ACK };
                let ack = if body.len() >= 6 { be32(body, 2) } else { 0 };
                tcp_frame(&net, &TcpH::new(flow.sport, flow.dport, seqs[k], ack, flags), if body.len() >= 6 { &body[6..] } else { &[] })
            }
            10 => {
                // IPv4 header with lying version/IHL and total length
                let (c, s) = match (&net.cip, &net.sip) {
                    (IpAddr::V4(c), IpAddr::V4(s)) => (c.octets(), s.octets()),
                    _ => ([198, 51, 100, 7], [203, 0, 113, 9]),
                };
                let mut h = Ip4H::new(c, s, body.get(3).cloned().unwrap_or(P_TCP));
                if body.len() >= 4 {
                    h.ver_ihl = Some(body[0]);
                    h.total_len = Some(be16(body, 1));
                }
                eth(&net.dmac, &net.cmac, ET_V4, &ip4(&h, if body.len() >= 4 { &body[4..] } else { &[] }))
            }
            _ => {
                let (sp, dp, ll) = if body.len() >= 6 { (be16(body, 0), be16(body, 2), be16(body, 4)) } else { (1, 2, 8) };
                ip_frame(&net, P_UDP, &udp_dgram(&net.cip, &net.sip, sp, dp, if body.len() >= 6 { &body[6..] } else { &[] }, Some(ll)))
            }
        };
        nframes += 1;
        // C09 reference model: does this frame validate its flow? (decided before it is sent; the
        // cookie of an arbitrary tuple is learned from the responder's own SYN-ACK)
        let validates = model.validates(&sut, &cfg, &frame);
        if logging {
            let _ = capture_take();
        }
        let _ = events_take();
        let out = sut.frame(&frame);
        // C20: the event log of this frame
        if let Out::Panic(_) = &out {
        } else if cfg.logger != LoggerKind::None {
            use super::props::c20::{judge_events, parse_console, parse_logfmt, Ev};
            let evs: Result<Vec<Ev>, String> = match cfg.logger {
                LoggerKind::Console => parse_console(&String::from_utf8_lossy(&capture_take())),
                LoggerKind::Logfmt => parse_logfmt(&String::from_utf8_lossy(&capture_take())),
                _ => Ok(events_take().into_iter().map(|e| Ev { layer: e.layer.to_string(), verb: e.verb.to_string(), fields: vec![] }).collect()),
            };
            match evs {
                Err(e) => return Err(("C20".into(), format!("log of frame {} not well-formed: {}", hex(&frame[..frame.len().min(120)]), e))),
                Ok(evs) => {
                    if let Err(f) = judge_events(&cfg, &frame, &evs, out.reply()) {
                        return Err(("C20".into(), f.msg));
                    }
                }
            }
        }
        // C09: size of the connection table = number of validated flows
        if !matches!(out, Out::Panic(_)) {
            match validates {
                Validates::Yes(key) => {
                    model.validated.insert(key);
                }
                Validates::No => {}
                Validates::Unknown => {
                    // header fields disagree with the bytes present: the model cannot tell what the
                    // responder parsed; accept at most one new entry and resynchronise
                    let n = Sut::tcb_len();
                    if n == model.validated.len() + model.unknown + 1 {
                        model.unknown += 1;
                    }
                }
            }
            let n = Sut::tcb_len();
            if n != model.validated.len() + model.unknown {
                return Err(("C09".into(), format!("connection table holds {} entries after frame {} but {} flows have sent a data segment acknowledging their cookie+1", n, hex(&frame[..frame.len().min(160)]), model.validated.len() + model.unknown)));
            }
        }
        match out {
            Out::Panic(p) => return Err(("C01".into(), format!("panic at {}:{} \"{}\" on frame {}", p.file, p.line, p.msg, hex(&frame[..frame.len().min(160)])))),
            Out::Silence => {}
            Out::Reply(r) => {
                if let Err(m) = scope_check(&cfg, &frame, &r) {
                    return Err(("C02".into(), m));
                }
                let d = match decode_reply(&r) {
                    Ok(d) => d,
                    Err(e) => return Err(("C04".into(), format!("reply does not decode: {} (request {} reply {})", e, hex(&frame[..frame.len().min(120)]), hex(&r[..r.len().min(120)])))),
                };
                if !d.problems.is_empty() {
                    return Err(("C04".into(), format!("{} (request {} reply {})", d.problems.join("; "), hex(&frame[..frame.len().min(120)]), hex(&r[..r.len().min(120)]))));
                }
                if let Err(f) = mirror_check(&cfg, &frame, &d) {
                    return Err(("C03".into(), format!("{} (request {} reply {})", f.msg, hex(&frame[..frame.len().min(120)]), hex(&r[..r.len().min(120)]))));
                }
                // application reply invariants (C13-C18)
                if let (Some(app), Some(rv)) = (d.app(), view_request(&frame)) {
                    if let Some(ip) = &rv.ip {
                        let (tcp, reqp, sport): (bool, &[u8], u16) = if ip.proto == P_TCP && ip.l4.len() >= 20 {
                            let doff = ((ip.l4[12] >> 4) as usize * 4).max(20).min(ip.l4.len());
                            (true, &ip.l4[doff..], be16(&ip.l4, 0))
                        } else if ip.proto == P_UDP && ip.l4.len() >= 8 {
                            (false, &ip.l4[8..], be16(&ip.l4, 0))
                        } else {
                            (false, &[][..], 0)
                        };
                        if !app.is_empty() && (ip.proto == P_TCP || ip.proto == P_UDP) {
                            app_invariants(reqp, app, tcp, &ip.src, sport, &ip.dst)?;
                        }
                    }
                }
            }
        }
    }
    if cfg.logger == LoggerKind::Console || cfg.logger == LoggerKind::Logfmt {
        let _ = capture_take();
    }
    let _ = events_take();
    Ok(nframes)
}

/// golden seed inputs (one per template / protocol) for both targets
pub fn write_seeds(dir: &str) -> i32 {
    use super::gen_app::*;
    let rec = |t: u8, k: u8, body: &[u8]| -> Vec<u8> {
        let mut v = vec![t, k];
        v.extend_from_slice(&(body.len() as u16).to_le_bytes());
        v.extend_from_slice(body);
        v
    };
    let http = b"GET /index.html HTTP/1.1\r\nHost: example.org\r\nUser-Agent: x\r\n\r\n".to_vec();
    let ssh = b"SSH-2.0-OpenSSH_8.2p1 Ubuntu-4\r\n".to_vec();
    let ghost = b"Gh0st\x16\x00\x00\x00\x01\x00\x00\x00x\x9c\x63\x00\x00\x00\x01\x00\x01".to_vec();
    let stun = StunReq { mtype: 1, magic: true, id: [7; 16], attrs: vec![], trailer: Hex(vec![]) }.bytes();
    let stun_cr = StunReq { mtype: 1, magic: false, id: [9; 16], attrs: vec![StunAttr { typ: 3, value: Hex(vec![0, 0, 0, 2]) }], trailer: Hex(vec![]) }.bytes();
    let dns = DnsQuery { id: 0x1337, flags: 0x0100, questions: vec![DnsQuestion { labels: vec![Hex(b"www".to_vec()), Hex(b"example".to_vec()), Hex(b"com".to_vec())], qtype: 1, qclass: 1 }] }.bytes();
    let rpc = RpcCall { xid: 0x72fe1d13, rpcvers_low: 2, program: 100000, version: 2, procedure: 3, cred_flavor: 0, cred: Hex(vec![]), verf_flavor: 0, verf: Hex(vec![]), args: Hex(vec![0, 1, 0x86, 0xa0, 0, 0, 0, 2, 0, 0, 0, 6, 0, 0, 0, 0]) };
    let smb1 = SmbReq::Smb1Negotiate { hdr: Smb1Hdr { command: 0x72, status: 0, flags: 0x18, flags2: 0xc843, pid_high: 0, signature: [0; 8], tid: 0, pid_low: 0xfffe, uid: 0, mid: 0 }, dialects: vec!["NT LANMAN 1.0".into(), "NT LM 0.12".into(), "SMB 2.002".into(), "SMB 2.???".into()] }.bytes();
    let smb2 = SmbReq::Smb2Negotiate { hdr: Smb2Hdr { credit_charge: 0, status: 0, command: 0, credits: 31, flags: 0, next_command: 0, message_id: 0, async_id: 0, session_id: 0, signature: [0; 16] }, dialects: vec![0x0202, 0x0210, 0x0300, 0x0311], secmode: 1, caps: 0x7f, guid: [3; 16], trailer: Hex(vec![]) }.bytes();
    let mut arp = vec![0, 1, 8, 0, 6, 4, 0, 1, 2, 0, 0, 0, 0, 9, 198, 51, 100, 7, 0, 0, 0, 0, 0, 0, 203, 0, 113, 9];
    arp.extend_from_slice(&[0; 18]);
    let mut ns = vec![135u8, 0, 0, 0, 0, 0];
    ns.extend_from_slice(&[0x20, 0x01, 0x0d, 0xb8, 0, 2, 0, 0, 0, 0, 0, 0, 0, 0, 0, 9]);
    ns.extend_from_slice(&[1, 1, 2, 0, 0, 0, 0, 9]);
    let mut frames: Vec<(String, Vec<u8>)> = Vec::new();
    let apps: Vec<(&str, Vec<u8>, Vec<u8>)> = vec![("http", http.clone(), http.clone()), ("ssh", ssh.clone(), ssh), ("ghost", ghost.clone(), ghost), ("stun", stun.clone(), stun), ("stun-cr", stun_cr.clone(), stun_cr), ("dns", dns.clone(), dns), ("rpc", rpc.record(), rpc.msg()), ("smb1", smb1.clone(), smb1), ("smb2", smb2.clone(), smb2)];
    for (cfg, tag) in [(0u8, "v4"), (1u8, "v6"), (0x0eu8, "v4-lists-console"), (0x17u8, "v6-lists-logfmt")] {
        for (name, tcpb, udpb) in &apps {
            let mut v = vec![cfg, 3];
            v.extend(rec(7, 0, &[]));
            v.extend(rec(8, 0, tcpb));
            let mut ub = vec![0x9c, 0x40, 0x00, 0x35];
            ub.extend_from_slice(udpb);
            v.extend(rec(6, 0, &ub));
            frames.push((format!("{}-{}", name, tag), v));
        }
        let mut v = vec![cfg, 4];
        v.extend(rec(2, 0, &arp));
        v.extend(rec(5, 0, &[if cfg & 1 == 0 { 8 } else { 128 }, 0, 0, 1, 0, 2, b'a', b'b', b'c']));
        v.extend(rec(5, 0, &ns));
        v.extend(rec(9, 1, &[0, 0x11, 0, 0, 0, 9]));
        v.extend(rec(10, 0, &[0x46, 0, 60, 6, 1, 1, 1, 1, 0, 80, 0, 81]));
        v.extend(rec(11, 0, &[0, 5, 0, 6, 0xff, 0xff, 1, 2, 3]));
        v.extend(rec(0, 0, &[1, 2, 3, 4, 5, 6, 7, 8, 9, 10, 11, 12, 13]));
        v.extend(rec(1, 0, &[0x88, 0x47, 1, 2, 3]));
        frames.push((format!("l2l3-{}", tag), v));
    }
    let fd = std::path::Path::new(dir).join("fz_frames");
    let sd = std::path::Path::new(dir).join("fz_stream");
    if std::fs::create_dir_all(&fd).is_err() || std::fs::create_dir_all(&sd).is_err() {
        return 2;
    }
    for (n, v) in &frames {
        if std::fs::write(fd.join(n), v).is_err() {
            return 2;
        }
    }
    let mut streams: Vec<(String, Vec<u8>)> = Vec::new();
    for (i, verb) in ["GET", "PUT", "POST", "HEAD", "DELETE", "CONNECT", "OPTIONS", "TRACE", "PATCH"].iter().enumerate() {
        let _ = verb;
        let mut v = vec![(i as u8) << 1, 3, 40, 128, 250];
        v.extend_from_slice(b"a/b?c=d HTTP/1.1\r\nHost: h\r\nX-Y: z: w\r\n\r\ntrailing");
        streams.push((format!("http-{}", i), v));
        let mut v = vec![(i as u8) << 1, 2, 10, 200];
        v.extend_from_slice(b" HTTP/1.0\nA:b\n\n");
        streams.push((format!("http-lf-{}", i), v));
    }
    for (i, (vers, proc_)) in [(2u8, 3u8), (3, 3), (4, 4), (2, 4), (9, 0), (2, 0), (3, 7)].iter().enumerate() {
        let mut v = vec![1u8, 3, 30, 100, 220];
        v.extend_from_slice(&[0x34, 0x56, 0x78, *vers, *proc_, 0, 0, 0]);
        // after the 28-byte prefix: cred flavor, cred len 8, cred body, verf flavor, verf len 4, verf body
        v.extend_from_slice(&[0, 0, 0, 1, 0, 0, 0, 8, 1, 2, 3, 4, 5, 6, 7, 8, 0, 0, 0, 0, 0, 0, 0, 4, 9, 9, 9, 9, 0, 0, 0, 0]);
        streams.push((format!("rpc-{}", i), v));
    }
    for (n, v) in &streams {
        if std::fs::write(sd.join(n), v).is_err() {
            return 2;
        }
    }
    eprintln!("wrote {} + {} seed inputs under {}", frames.len(), streams.len(), dir);
    0
}

pub fn stream(data: &[u8]) {
    if let Err(e) = stream_checked(data) {
        violation(&e.0, e.1);
    }
}

/// input: [selector u8][ncuts u8][cuts: ncuts x u8][stream...]; selector bit 0: 0 = HTTP ("GET /"
/// is prepended so that the flow is identified), 1 = RPC (a 28-byte signature-conformant prefix
/// is prepended)
pub fn stream_checked(data: &[u8]) -> Result<u64, (String, String)> {
    if data.len() < 3 {
        return Ok(0);
    }
    let rpc = data[0] & 1 == 1;
    let nc = (data[1] % 6) as usize;
    if data.len() < 2 + nc {
        return Ok(0);
    }
    let cutb = &data[2..2 + nc];
    let tail = &data[2 + nc..];
    let tail = &tail[..tail.len().min(300)];
    let (mut s, sig_len): (Vec<u8>, usize) = if rpc {
        let mut p = vec![0x80, 0, 0, 0x28, 0x12, 0x34, 0x56, 0x78, 0, 0, 0, 0, 0, 0, 0, 2, 0, 1, 0x86, 0xa0, 0, 0, 0, 2, 0, 0, 0, 3];
        if tail.len() >= 8 {
            // let the fuzzer own xid (first byte kept away from shadowed values), version, procedure
            p[5..8].copy_from_slice(&tail[0..3]);
            p[23] = tail[3];
            p[27] = tail[4];
        }
        (p, 28)
    } else {
        let verbs: [&[u8]; 9] = [b"GET", b"PUT", b"POST", b"HEAD", b"DELETE", b"CONNECT", b"OPTIONS", b"TRACE", b"PATCH"];
        let v = verbs[(data[0] >> 1) as usize % 9];
        let mut p = v.to_vec();
        p.extend_from_slice(b" /");
        let l = p.len();
        (p, l)
    };
    // in RPC mode the first 8 tail bytes are parameters of the prefix, not stream bytes
    s.extend_from_slice(if rpc && tail.len() >= 8 { &tail[8..] } else { tail });
    let n = s.len();
    if n <= sig_len + 1 {
        return Ok(0);
    }
    let mut cfg = Cfg::plain([0x02, 0x42, 0xac, 0x11, 0x00, 0x02]);
    cfg.level = 0;
    let sut = Sut::new(&cfg);
    let net = Net { cmac: [2, 0, 0, 0, 0, 9], dmac: cfg.mac, cip: IpAddr::V4(Ipv4Addr::new(198, 51, 100, 7)), sip: IpAddr::V4(Ipv4Addr::new(203, 0, 113, 9)) };
    let flow = Flow { net, sport: 40123, dport: 8080 };
    let run = |cuts: &[usize]| -> Result<Vec<(usize, SegReply)>, (String, String)> {
        Sut::reset();
        let cookie = learn_cookie(&sut, &flow, 1).map_err(|e| ("C06".to_string(), e))?;
        let mut out = Vec::new();
        let mut prev = 0;
        let mut seq = 2u32;
        let mut b: Vec<usize> = cuts.to_vec();
        b.push(n);
        for e in b {
            let o = sut.frame(&flow.data(seq, cookie.wrapping_add(1), &s[prev..e]));
            if let Out::Panic(p) = &o {
                return Err(("C01".into(), format!("panic at {}:{} \"{}\" while delivering stream {}", p.file, p.line, p.msg, hex(&s[..n.min(120)]))));
            }
            out.push((e, classify_seg_reply(&o)));
            seq = seq.wrapping_add((e - prev) as u32);
            prev = e;
        }
        Ok(out)
    };
    let first = |v: &[(usize, SegReply)]| -> Option<(usize, Vec<u8>)> {
        for (e, r) in v {
            if let SegReply::Data(p) = r {
                return Some((*e, normalise_app(p)));
            }
        }
        None
    };
    let finest: Vec<usize> = (sig_len..n).collect();
    let rf = first(&run(&finest)?);
    let ru = first(&run(&[])?);
    let descr = format!("stream {} (signature {} bytes)", hex(&s[..n.min(160)]), sig_len);
    match (&rf, &ru) {
        (None, None) => {}
        (Some((_, a)), Some((_, b))) if a == b => {}
        _ => return Err(("C11".into(), format!("unsplit delivery {:?} vs finest delivery {:?}: {}", ru.as_ref().map(|x| x.0), rf.as_ref().map(|x| x.0), descr))),
    }
    // the fuzzer's own segmentation: cuts strictly after the signature
    let mut cuts: Vec<usize> = cutb.iter().map(|c| sig_len + (*c as usize * (n - sig_len)) / 256).filter(|c| *c > sig_len - 1 && *c < n && *c >= sig_len).collect();
    cuts.sort();
    cuts.dedup();
    cuts.retain(|c| *c >= sig_len && *c > 0);
    let v = run(&cuts)?;
    let (t, rpay) = rf.clone().unwrap_or((usize::MAX, vec![]));
    for (e, rep) in &v {
        if *e < t {
            if *rep != SegReply::Ack {
                return Err(("C11".into(), format!("segmentation {:?}: segment ending at {} (before trigger offset {:?}) got {:?}: {}", cuts, e, rf.as_ref().map(|x| x.0), rep, descr)));
            }
        } else {
            match rep {
                SegReply::Data(p) if normalise_app(p) == rpay => break,
                other => return Err(("C11".into(), format!("segmentation {:?}: segment ending at {} (trigger offset {}) got {:?}: {}", cuts, e, t, other, descr))),
            }
        }
    }
    Ok(1)
}
