// Independent frame codec (no pnet): builders with settable lies, a strict reply
// decoder / well-formedness checker, RFC 1071 checksum.

use serde::{Deserialize, Serialize};
use std::net::{IpAddr, Ipv4Addr, Ipv6Addr};

use super::util::*;

pub const ET_ARP: u16 = 0x0806;
pub const ET_V4: u16 = 0x0800;
pub const ET_V6: u16 = 0x86dd;
pub const P_ICMP: u8 = 1;
pub const P_TCP: u8 = 6;
pub const P_UDP: u8 = 17;
pub const P_ICMP6: u8 = 58;

pub const F_FIN: u16 = 0x001;
pub const F_SYN: u16 = 0x002;
pub const F_RST: u16 = 0x004;
pub const F_PSH: u16 = 0x008;
pub const F_ACK: u16 = 0x010;
pub const F_URG: u16 = 0x020;
pub const F_ECE: u16 = 0x040;
pub const F_CWR: u16 = 0x080;
pub const F_NS: u16 = 0x100;

pub const BCAST: [u8; 6] = [0xff; 6];
pub const ALLNODES: [u8; 6] = [0x33, 0x33, 0, 0, 0, 1];

// ---------------------------------------------------------------------------------------
// checksums

pub fn ones_sum(data: &[u8], mut acc: u32) -> u32 {
    let mut i = 0;
    while i + 1 < data.len() {
        acc += ((data[i] as u32) << 8) | data[i + 1] as u32;
        if acc > 0xffff_0000 {
            acc = (acc & 0xffff) + (acc >> 16);
        }
        i += 2;
    }
    if i < data.len() {
        acc += (data[i] as u32) << 8;
    }
    acc
}

pub fn fold(mut s: u32) -> u16 {
    while s >> 16 != 0 {
        s = (s & 0xffff) + (s >> 16);
    }
    s as u16
}

/// Internet checksum of `data` given a pre-accumulated pseudo-header sum.
pub fn inet_csum(data: &[u8], acc: u32) -> u16 {
    !fold(ones_sum(data, acc))
}

pub fn ip_octets(ip: &IpAddr) -> Vec<u8> {
    match ip {
        IpAddr::V4(a) => a.octets().to_vec(),
        IpAddr::V6(a) => a.octets().to_vec(),
    }
}

pub fn pseudo(src: &IpAddr, dst: &IpAddr, proto: u8, len: usize) -> u32 {
    let mut acc = 0u32;
    acc = ones_sum(&ip_octets(src), acc);
    acc = ones_sum(&ip_octets(dst), acc);
    match src {
        IpAddr::V4(_) => {
            acc += proto as u32;
            acc += (len & 0xffff) as u32;
        }
        IpAddr::V6(_) => {
            acc += (len >> 16) as u32 & 0xffff;
            acc += (len & 0xffff) as u32;
            acc += proto as u32;
        }
    }
    acc
}

// ---------------------------------------------------------------------------------------
// builders

#[derive(Clone, Debug, Serialize, Deserialize, PartialEq, Eq, Hash)]
pub struct Net {
    /// client (requester) MAC
    pub cmac: [u8; 6],
    /// destination MAC of the request
    pub dmac: [u8; 6],
    pub cip: IpAddr,
    pub sip: IpAddr,
}

impl Net {
    pub fn is_v4(&self) -> bool {
        self.cip.is_ipv4()
    }
}

pub fn eth(dst: &[u8; 6], src: &[u8; 6], ethertype: u16, payload: &[u8]) -> Vec<u8> {
    let mut v = Vec::with_capacity(14 + payload.len());
    v.extend_from_slice(dst);
    v.extend_from_slice(src);
    v.extend_from_slice(&ethertype.to_be_bytes());
    v.extend_from_slice(payload);
    v
}

#[derive(Clone, Debug, Serialize, Deserialize, PartialEq, Eq, Hash)]
pub struct Ip4H {
    pub src: [u8; 4],
    pub dst: [u8; 4],
    pub proto: u8,
    pub ttl: u8,
    pub id: u16,
    pub flags_frag: u16,
    pub tos: u8,
    /// header options (padded by caller to a multiple of 4)
    pub options: Vec<u8>,
    /// lies (None = consistent)
    pub ver_ihl: Option<u8>,
    pub total_len: Option<u16>,
    pub csum: Option<u16>,
}

impl Ip4H {
    pub fn new(src: [u8; 4], dst: [u8; 4], proto: u8) -> Ip4H {
        Ip4H {
            src,
            dst,
            proto,
            ttl: 64,
            id: 1,
            flags_frag: 0,
            tos: 0,
            options: vec![],
            ver_ihl: None,
            total_len: None,
            csum: None,
        }
    }
}

pub fn ip4(h: &Ip4H, payload: &[u8]) -> Vec<u8> {
    let hl = 20 + h.options.len();
    let mut v = Vec::with_capacity(hl + payload.len());
    v.push(h.ver_ihl.unwrap_or(0x40 | ((hl / 4) as u8 & 0x0f)));
    v.push(h.tos);
    let tl = h.total_len.unwrap_or((hl + payload.len()).min(65535) as u16);
    v.extend_from_slice(&tl.to_be_bytes());
    v.extend_from_slice(&h.id.to_be_bytes());
    v.extend_from_slice(&h.flags_frag.to_be_bytes());
    v.push(h.ttl);
    v.push(h.proto);
    v.extend_from_slice(&[0, 0]);
    v.extend_from_slice(&h.src);
    v.extend_from_slice(&h.dst);
    v.extend_from_slice(&h.options);
    let c = h.csum.unwrap_or_else(|| inet_csum(&v[..hl], 0));
    v[10] = (c >> 8) as u8;
    v[11] = c as u8;
    v.extend_from_slice(payload);
    v
}

#[derive(Clone, Debug, Serialize, Deserialize, PartialEq, Eq, Hash)]
pub struct Ip6H {
    pub src: [u8; 16],
    pub dst: [u8; 16],
    pub next: u8,
    pub hop: u8,
    pub tc_flow: u32,
    pub ver: u8,
    pub payload_len: Option<u16>,
}

impl Ip6H {
    pub fn new(src: [u8; 16], dst: [u8; 16], next: u8) -> Ip6H {
        Ip6H { src, dst, next, hop: 64, tc_flow: 0, ver: 6, payload_len: None }
    }
}

pub fn ip6(h: &Ip6H, payload: &[u8]) -> Vec<u8> {
    let mut v = Vec::with_capacity(40 + payload.len());
    let w = ((h.ver as u32) << 28) | (h.tc_flow & 0x0fff_ffff);
    v.extend_from_slice(&w.to_be_bytes());
    let pl = h.payload_len.unwrap_or(payload.len().min(65535) as u16);
    v.extend_from_slice(&pl.to_be_bytes());
    v.push(h.next);
    v.push(h.hop);
    v.extend_from_slice(&h.src);
    v.extend_from_slice(&h.dst);
    v.extend_from_slice(payload);
    v
}

/// Consistent IP packet (either family) inside an Ethernet frame.
pub fn ip_frame(net: &Net, proto: u8, l4: &[u8]) -> Vec<u8> {
    let mut f = match (&net.cip, &net.sip) {
        (IpAddr::V4(c), IpAddr::V4(s)) => {
            let h = Ip4H::new(c.octets(), s.octets(), proto);
            eth(&net.dmac, &net.cmac, ET_V4, &ip4(&h, l4))
        }
        (IpAddr::V6(c), IpAddr::V6(s)) => {
            let h = Ip6H::new(c.octets(), s.octets(), proto);
            eth(&net.dmac, &net.cmac, ET_V6, &ip6(&h, l4))
        }
        _ => panic!("harness: mixed IP families in Net"),
    };
    AMBIENT_TWEAK.with(|a| {
        if let Some(t) = a.borrow().as_ref() {
            apply_ip_tweak(&mut f, t);
        }
    });
    f
}

#[derive(Clone, Debug, Serialize, Deserialize, PartialEq, Eq, Hash)]
pub struct TcpH {
    pub sport: u16,
    pub dport: u16,
    pub seq: u32,
    pub ack: u32,
    /// 9 flag bits (NS = 0x100)
    pub flags: u16,
    pub window: u16,
    pub urg: u16,
    /// options, length multiple of 4 (consistent data offset unless `doff` is set)
    pub options: Vec<u8>,
    pub doff: Option<u8>,
}

impl TcpH {
    pub fn new(sport: u16, dport: u16, seq: u32, ack: u32, flags: u16) -> TcpH {
        TcpH { sport, dport, seq, ack, flags, window: 8192, urg: 0, options: vec![], doff: None }
    }
}

pub fn tcp_seg(src: &IpAddr, dst: &IpAddr, h: &TcpH, payload: &[u8]) -> Vec<u8> {
    let hl = 20 + h.options.len();
    let mut v = Vec::with_capacity(hl + payload.len());
    v.extend_from_slice(&h.sport.to_be_bytes());
    v.extend_from_slice(&h.dport.to_be_bytes());
    v.extend_from_slice(&h.seq.to_be_bytes());
    v.extend_from_slice(&h.ack.to_be_bytes());
    let doff = h.doff.unwrap_or((hl / 4) as u8) & 0x0f;
    // bits 9..11 of `flags` are the three reserved header bits (not flags)
    v.push((doff << 4) | ((h.flags >> 8) as u8 & 0x0f));
    v.push(h.flags as u8);
    v.extend_from_slice(&h.window.to_be_bytes());
    v.extend_from_slice(&[0, 0]);
    v.extend_from_slice(&h.urg.to_be_bytes());
    v.extend_from_slice(&h.options);
    v.extend_from_slice(payload);
    let c = inet_csum(&v, pseudo(src, dst, P_TCP, v.len()));
    v[16] = (c >> 8) as u8;
    v[17] = c as u8;
    v
}

pub fn udp_dgram(src: &IpAddr, dst: &IpAddr, sport: u16, dport: u16, payload: &[u8], len_lie: Option<u16>) -> Vec<u8> {
    let mut v = Vec::with_capacity(8 + payload.len());
    v.extend_from_slice(&sport.to_be_bytes());
    v.extend_from_slice(&dport.to_be_bytes());
    let l = len_lie.unwrap_or((8 + payload.len()).min(65535) as u16);
    v.extend_from_slice(&l.to_be_bytes());
    v.extend_from_slice(&[0, 0]);
    v.extend_from_slice(payload);
    let mut c = inet_csum(&v, pseudo(src, dst, P_UDP, v.len()));
    if c == 0 {
        c = 0xffff;
    }
    v[6] = (c >> 8) as u8;
    v[7] = c as u8;
    v
}

/// ICMPv4 message: type, code, then `rest` (for echo: id, seq, data).
pub fn icmp4(typ: u8, code: u8, rest: &[u8]) -> Vec<u8> {
    let mut v = vec![typ, code, 0, 0];
    v.extend_from_slice(rest);
    let c = inet_csum(&v, 0);
    v[2] = (c >> 8) as u8;
    v[3] = c as u8;
    v
}

pub fn icmp6(src: &IpAddr, dst: &IpAddr, typ: u8, code: u8, rest: &[u8]) -> Vec<u8> {
    let mut v = vec![typ, code, 0, 0];
    v.extend_from_slice(rest);
    let c = inet_csum(&v, pseudo(src, dst, P_ICMP6, v.len()));
    v[2] = (c >> 8) as u8;
    v[3] = c as u8;
    v
}

#[derive(Clone, Debug, Serialize, Deserialize, PartialEq, Eq, Hash)]
pub struct ArpM {
    pub htype: u16,
    pub ptype: u16,
    pub hlen: u8,
    pub plen: u8,
    pub op: u16,
    pub sha: [u8; 6],
    pub spa: [u8; 4],
    pub tha: [u8; 6],
    pub tpa: [u8; 4],
}

pub fn arp(m: &ArpM) -> Vec<u8> {
    let mut v = Vec::with_capacity(28);
    v.extend_from_slice(&m.htype.to_be_bytes());
    v.extend_from_slice(&m.ptype.to_be_bytes());
    v.push(m.hlen);
    v.push(m.plen);
    v.extend_from_slice(&m.op.to_be_bytes());
    v.extend_from_slice(&m.sha);
    v.extend_from_slice(&m.spa);
    v.extend_from_slice(&m.tha);
    v.extend_from_slice(&m.tpa);
    v
}

pub fn parse_arp(b: &[u8]) -> Option<ArpM> {
    if b.len() < 28 {
        return None;
    }
    let mut m = ArpM {
        htype: be16(b, 0),
        ptype: be16(b, 2),
        hlen: b[4],
        plen: b[5],
        op: be16(b, 6),
        sha: [0; 6],
        spa: [0; 4],
        tha: [0; 6],
        tpa: [0; 4],
    };
    m.sha.copy_from_slice(&b[8..14]);
    m.spa.copy_from_slice(&b[14..18]);
    m.tha.copy_from_slice(&b[18..24]);
    m.tpa.copy_from_slice(&b[24..28]);
    Some(m)
}

// high-level helpers ---------------------------------------------------------------------

pub fn tcp_frame(net: &Net, h: &TcpH, payload: &[u8]) -> Vec<u8> {
    ip_frame(net, P_TCP, &tcp_seg(&net.cip, &net.sip, h, payload))
}

pub fn udp_frame(net: &Net, sport: u16, dport: u16, payload: &[u8]) -> Vec<u8> {
    ip_frame(net, P_UDP, &udp_dgram(&net.cip, &net.sip, sport, dport, payload, None))
}

pub fn echo_frame(net: &Net, id: u16, seq: u16, data: &[u8]) -> Vec<u8> {
    let mut rest = Vec::with_capacity(4 + data.len());
    rest.extend_from_slice(&id.to_be_bytes());
    rest.extend_from_slice(&seq.to_be_bytes());
    rest.extend_from_slice(data);
    if net.is_v4() {
        ip_frame(net, P_ICMP, &icmp4(8, 0, &rest))
    } else {
        ip_frame(net, P_ICMP6, &icmp6(&net.cip, &net.sip, 128, 0, &rest))
    }
}

pub fn arp_req_frame(cmac: &[u8; 6], dmac: &[u8; 6], spa: [u8; 4], tpa: [u8; 4]) -> Vec<u8> {
    let m = ArpM { htype: 1, ptype: 0x0800, hlen: 6, plen: 4, op: 1, sha: *cmac, spa, tha: [0; 6], tpa };
    eth(dmac, cmac, ET_ARP, &arp(&m))
}

/// Neighbour solicitation for `target`, sent from net.cip to net.sip (IPv6 only).
pub fn ns_frame(net: &Net, target: &[u8; 16], options: &[u8]) -> Vec<u8> {
    let mut rest = vec![0u8; 4];
    rest.extend_from_slice(target);
    rest.extend_from_slice(options);
    let l4 = icmp6(&net.cip, &net.sip, 135, 0, &rest);
    match (&net.cip, &net.sip) {
        (IpAddr::V6(c), IpAddr::V6(s)) => {
            let mut h = Ip6H::new(c.octets(), s.octets(), P_ICMP6);
            h.hop = 255;
            eth(&net.dmac, &net.cmac, ET_V6, &ip6(&h, &l4))
        }
        _ => panic!("harness: ns_frame needs IPv6"),
    }
}

pub fn solicited_node_mac(ip: &[u8; 16]) -> [u8; 6] {
    [0x33, 0x33, 0xff, ip[13], ip[14], ip[15]]
}

pub fn v4_mcast_mac(ip: &[u8; 4]) -> [u8; 6] {
    [0x01, 0x00, 0x5e, ip[1] & 0x7f, ip[2], ip[3]]
}

/// Overwrite the transport (ICMP / ICMPv6 / TCP / UDP) checksum field of a request frame. The
/// responder never verifies inbound checksums, so such requests are answered like valid ones —
/// and their replies must be just as well-formed. Returns false if the frame has no such field.
pub fn set_l4_checksum(f: &mut [u8], val: u16) -> bool {
    if f.len() < 14 {
        return false;
    }
    let (l4, proto) = match be16(f, 12) {
        ET_V4 if f.len() >= 34 => (14 + ((f[14] & 0x0f) as usize * 4).max(20), f[14 + 9]),
        ET_V6 if f.len() >= 54 => (54, f[14 + 6]),
        _ => return false,
    };
    let off = match proto {
        P_ICMP | P_ICMP6 => l4 + 2,
        P_TCP => l4 + 16,
        P_UDP => l4 + 6,
        _ => return false,
    };
    if off + 2 > f.len() {
        return false;
    }
    f[off] = (val >> 8) as u8;
    f[off + 1] = val as u8;
    true
}

// ---------------------------------------------------------------------------------------
// strict reply decoder + well-formedness check

#[derive(Clone, Debug, PartialEq)]
pub struct TcpD {
    pub sport: u16,
    pub dport: u16,
    pub seq: u32,
    pub ack: u32,
    pub doff: u8,
    pub flags: u16,
    pub window: u16,
    pub payload: Vec<u8>,
}

#[derive(Clone, Debug, PartialEq)]
pub struct UdpD {
    pub sport: u16,
    pub dport: u16,
    pub len: u16,
    pub csum: u16,
    pub payload: Vec<u8>,
}

#[derive(Clone, Debug, PartialEq)]
pub enum L4D {
    Icmp { typ: u8, code: u8, rest: Vec<u8> },
    Icmp6 { typ: u8, code: u8, rest: Vec<u8> },
    Tcp(TcpD),
    Udp(UdpD),
    Other(Vec<u8>),
}

#[derive(Clone, Debug, PartialEq)]
pub struct IpD {
    pub v: u8,
    pub src: IpAddr,
    pub dst: IpAddr,
    pub proto: u8,
    pub ttl: u8,
    pub l4: L4D,
}

#[derive(Clone, Debug, PartialEq)]
pub enum L3D {
    Arp(ArpM, usize /* trailing bytes */),
    Ip(IpD),
    Other,
}

#[derive(Clone, Debug, PartialEq)]
pub struct Dec {
    pub dst: [u8; 6],
    pub src: [u8; 6],
    pub ethertype: u16,
    pub l3: L3D,
    /// well-formedness problems found while decoding (empty = WF at every layer)
    pub problems: Vec<String>,
}

impl Dec {
    pub fn ip(&self) -> Option<&IpD> {
        match &self.l3 {
            L3D::Ip(i) => Some(i),
            _ => None,
        }
    }
    pub fn tcp(&self) -> Option<&TcpD> {
        match self.ip().map(|i| &i.l4) {
            Some(L4D::Tcp(t)) => Some(t),
            _ => None,
        }
    }
    pub fn udp(&self) -> Option<&UdpD> {
        match self.ip().map(|i| &i.l4) {
            Some(L4D::Udp(u)) => Some(u),
            _ => None,
        }
    }
    /// application payload of a TCP or UDP reply
    pub fn app(&self) -> Option<&[u8]> {
        match self.ip().map(|i| &i.l4) {
            Some(L4D::Tcp(t)) => Some(&t.payload),
            Some(L4D::Udp(u)) => Some(&u.payload),
            _ => None,
        }
    }
}

fn mac6(b: &[u8]) -> [u8; 6] {
    let mut m = [0u8; 6];
    m.copy_from_slice(&b[..6]);
    m
}

/// Decode a frame emitted by the responder. Lengths must be exactly consistent
/// (a frame is exactly one frame: no trailing bytes at IP level); checksums are
/// verified with the independent implementation above. Problems are collected.
pub fn decode_reply(f: &[u8]) -> Result<Dec, String> {
    if f.len() < 14 {
        return Err(format!("reply shorter than an Ethernet header ({} bytes)", f.len()));
    }
    let mut d = Dec { dst: mac6(&f[0..6]), src: mac6(&f[6..12]), ethertype: be16(f, 12), l3: L3D::Other, problems: vec![] };
    let p = &f[14..];
    match d.ethertype {
        ET_ARP => {
            let m = parse_arp(p).ok_or_else(|| "ARP reply shorter than 28 bytes".to_string())?;
            d.l3 = L3D::Arp(m, p.len() - 28);
        }
        ET_V4 => {
            if p.len() < 20 {
                return Err("IPv4 reply shorter than 20 bytes".into());
            }
            let ver = p[0] >> 4;
            let ihl = (p[0] & 0x0f) as usize;
            if ver != 4 {
                d.problems.push(format!("IPv4 version field = {}", ver));
            }
            let tl = be16(p, 2) as usize;
            if tl != p.len() {
                d.problems.push(format!("IPv4 total length {} != actual {}", tl, p.len()));
            }
            // the packet as its own length field delimits it (bytes behind it are link-layer padding)
            let end = if tl >= 20 && tl <= p.len() { tl } else { p.len() };
            // "IHL matching the real header": a 20-byte header, or a longer one whose option area is a
            // well-formed option list
            let hl = if ihl < 5 || ihl * 4 > end {
                d.problems.push(format!("IPv4 IHL = {} does not delimit a header inside the {}-byte packet", ihl, end));
                20
            } else {
                if let Err(e) = check_options(&p[20..ihl * 4], false) {
                    d.problems.push(format!("IPv4 IHL = {} but the option area is not a well-formed option list ({})", ihl, e));
                }
                ihl * 4
            };
            let ff = be16(p, 6);
            if ff & 0x2000 != 0 || ff & 0x1fff != 0 {
                d.problems.push(format!("IPv4 fragmented (flags/frag = {:#06x})", ff));
            }
            if p[8] == 0 {
                d.problems.push("IPv4 TTL = 0".into());
            }
            if fold(ones_sum(&p[..hl], 0)) != 0xffff {
                d.problems.push(format!("IPv4 header checksum invalid (field {:#06x})", be16(p, 10)));
            }
            let src = IpAddr::V4(Ipv4Addr::new(p[12], p[13], p[14], p[15]));
            let dst = IpAddr::V4(Ipv4Addr::new(p[16], p[17], p[18], p[19]));
            let proto = p[9];
            let l4 = decode_l4(&src, &dst, proto, &p[hl..end], &mut d.problems);
            d.l3 = L3D::Ip(IpD { v: 4, src, dst, proto, ttl: p[8], l4 });
        }
        ET_V6 => {
            if p.len() < 40 {
                return Err("IPv6 reply shorter than 40 bytes".into());
            }
            let ver = p[0] >> 4;
            if ver != 6 {
                d.problems.push(format!("IPv6 version field = {}", ver));
            }
            let pl = be16(p, 4) as usize;
            if pl != p.len() - 40 {
                d.problems.push(format!("IPv6 payload length {} != actual {}", pl, p.len() - 40));
            }
            if p[7] == 0 {
                d.problems.push("IPv6 hop limit = 0".into());
            }
            let mut s = [0u8; 16];
            s.copy_from_slice(&p[8..24]);
            let mut t = [0u8; 16];
            t.copy_from_slice(&p[24..40]);
            let src = IpAddr::V6(Ipv6Addr::from(s));
            let dst = IpAddr::V6(Ipv6Addr::from(t));
            let proto = p[6];
            let end6 = if 40 + pl <= p.len() { 40 + pl } else { p.len() };
            let l4 = decode_l4(&src, &dst, proto, &p[40..end6], &mut d.problems);
            if let L4D::Icmp6 { typ: 136, .. } = &l4 {
                if p[7] != 255 {
                    d.problems.push(format!("neighbour advertisement with hop limit {}", p[7]));
                }
            }
            d.l3 = L3D::Ip(IpD { v: 6, src, dst, proto, ttl: p[7], l4 });
        }
        _ => {}
    }
    Ok(d)
}

/// kind 0 = end of list (only padding zeros may follow), 1 = no-operation, every other option
/// carries a length octet >= 2 that stays inside the area; for TCP the fixed-size options have
/// their sizes (MSS 4, window scale 3, SACK-permitted 2, timestamps 10)
pub fn check_options(o: &[u8], tcp: bool) -> Result<(), String> {
    let mut i = 0;
    while i < o.len() {
        match o[i] {
            0 => {
                if o[i..].iter().any(|b| *b != 0) {
                    return Err("bytes other than zero behind the end-of-list option".into());
                }
                return Ok(());
            }
            1 => i += 1,
            k => {
                if i + 1 >= o.len() {
                    return Err(format!("option kind {} without a length octet", k));
                }
                let l = o[i + 1] as usize;
                if l < 2 || i + l > o.len() {
                    return Err(format!("option kind {} with length {} at offset {} of a {}-byte area", k, l, i, o.len()));
                }
                if tcp {
                    let want = match k { 2 => Some(4), 3 => Some(3), 4 => Some(2), 8 => Some(10), _ => None };
                    if let Some(w) = want {
                        if l != w {
                            return Err(format!("TCP option kind {} with length {} (must be {})", k, l, w));
                        }
                    }
                }
                i += l;
            }
        }
    }
    Ok(())
}

fn decode_l4(src: &IpAddr, dst: &IpAddr, proto: u8, b: &[u8], problems: &mut Vec<String>) -> L4D {
    let v6 = src.is_ipv6();
    match proto {
        P_ICMP if !v6 => {
            if b.len() < 4 {
                problems.push("ICMP message shorter than 4 bytes".into());
                return L4D::Other(b.to_vec());
            }
            if fold(ones_sum(b, 0)) != 0xffff {
                problems.push(format!("ICMP checksum invalid (field {:#06x})", be16(b, 2)));
            }
            L4D::Icmp { typ: b[0], code: b[1], rest: b[4..].to_vec() }
        }
        P_ICMP6 if v6 => {
            if b.len() < 4 {
                problems.push("ICMPv6 message shorter than 4 bytes".into());
                return L4D::Other(b.to_vec());
            }
            if fold(ones_sum(b, pseudo(src, dst, P_ICMP6, b.len()))) != 0xffff {
                problems.push(format!("ICMPv6 checksum invalid (field {:#06x})", be16(b, 2)));
            }
            L4D::Icmp6 { typ: b[0], code: b[1], rest: b[4..].to_vec() }
        }
        P_TCP => {
            if b.len() < 20 {
                problems.push("TCP segment shorter than 20 bytes".into());
                return L4D::Other(b.to_vec());
            }
            let doff = b[12] >> 4;
            // "data offset matches the real header": 5, or larger with a well-formed option list
            // in between that ends inside the segment
            if doff < 5 || (doff as usize) * 4 > b.len() {
                problems.push(format!("TCP data offset {} does not delimit a header inside the {}-byte segment", doff, b.len()));
            } else if let Err(e) = check_options(&b[20..(doff as usize) * 4], true) {
                problems.push(format!("TCP data offset {} but the option area is not a well-formed option list ({})", doff, e));
            }
            if fold(ones_sum(b, pseudo(src, dst, P_TCP, b.len()))) != 0xffff {
                problems.push(format!("TCP checksum invalid (field {:#06x})", be16(b, 16)));
            }
            let flags = (((b[12] & 1) as u16) << 8) | b[13] as u16;
            let window = be16(b, 14);
            if flags & (F_SYN | F_ACK) == (F_SYN | F_ACK) && window == 0 {
                problems.push("SYN-ACK with zero window".into());
            }
            let start = ((doff as usize) * 4).max(20).min(b.len());
            L4D::Tcp(TcpD {
                sport: be16(b, 0),
                dport: be16(b, 2),
                seq: be32(b, 4),
                ack: be32(b, 8),
                doff,
                flags,
                window,
                payload: b[start..].to_vec(),
            })
        }
        P_UDP => {
            if b.len() < 8 {
                problems.push("UDP datagram shorter than 8 bytes".into());
                return L4D::Other(b.to_vec());
            }
            let len = be16(b, 4);
            if len as usize != b.len() {
                problems.push(format!("UDP length {} != actual {}", len, b.len()));
            }
            let field = be16(b, 6);
            // true checksum: computed with the checksum field zeroed
            let mut z = b.to_vec();
            z[6] = 0;
            z[7] = 0;
            let truth = inet_csum(&z, pseudo(src, dst, P_UDP, z.len()));
            if field == 0 {
                if v6 {
                    problems.push("UDP over IPv6 transmitted with checksum 0".into());
                } else if truth != 0 && truth != 0xffff {
                    // over IPv4 a zero field means "no checksum"; accepted only where the
                    // computed checksum is itself zero (so "always send 0" is caught)
                    problems.push(format!("UDP/IPv4 checksum field 0 but computed checksum is {:#06x}", truth));
                }
            } else if fold(ones_sum(b, pseudo(src, dst, P_UDP, b.len()))) != 0xffff {
                problems.push(format!("UDP checksum invalid (field {:#06x}, expected {:#06x})", field, truth));
            }
            L4D::Udp(UdpD { sport: be16(b, 0), dport: be16(b, 2), len, csum: field, payload: b[8..].to_vec() })
        }
        _ => L4D::Other(b.to_vec()),
    }
}

// ---------------------------------------------------------------------------------------
// lenient request decoder: what the statement's layers see of a received frame

#[derive(Clone, Debug, PartialEq)]
pub struct ReqView {
    pub dst: [u8; 6],
    pub src: [u8; 6],
    pub ethertype: u16,
    pub ip: Option<ReqIp>,
}

#[derive(Clone, Debug, PartialEq)]
pub struct ReqIp {
    pub v: u8,
    pub src: IpAddr,
    pub dst: IpAddr,
    pub proto: u8,
    /// transport bytes as delimited by the IP length fields (clamped to the buffer)
    pub l4: Vec<u8>,
}

pub fn view_request(f: &[u8]) -> Option<ReqView> {
    if f.len() < 14 {
        return None;
    }
    let mut v = ReqView { dst: mac6(&f[0..6]), src: mac6(&f[6..12]), ethertype: be16(f, 12), ip: None };
    let p = &f[14..];
    match v.ethertype {
        ET_V4 if p.len() >= 20 => {
            let ihl = (p[0] & 0x0f) as usize;
            let tl = be16(p, 2) as usize;
            let start = (20 + (ihl * 4).saturating_sub(20)).min(p.len());
            let plen = tl.saturating_sub(ihl * 4);
            let end = (start + plen).min(p.len());
            v.ip = Some(ReqIp {
                v: 4,
                src: IpAddr::V4(Ipv4Addr::new(p[12], p[13], p[14], p[15])),
                dst: IpAddr::V4(Ipv4Addr::new(p[16], p[17], p[18], p[19])),
                proto: p[9],
                l4: p[start..end].to_vec(),
            });
        }
        ET_V6 if p.len() >= 40 => {
            let pl = be16(p, 4) as usize;
            let end = (40 + pl).min(p.len());
            let mut s = [0u8; 16];
            s.copy_from_slice(&p[8..24]);
            let mut t = [0u8; 16];
            t.copy_from_slice(&p[24..40]);
            v.ip = Some(ReqIp {
                v: 6,
                src: IpAddr::V6(Ipv6Addr::from(s)),
                dst: IpAddr::V6(Ipv6Addr::from(t)),
                proto: p[6],
                l4: p[40..end].to_vec(),
            });
        }
        _ => {}
    }
    Some(v)
}

/// `view_request`, but for IPv6 the transport is looked for behind Hop-by-Hop (0), Routing (43),
/// Fragment (44, offset 0 only) and Destination Options (60) headers — what a responder that skips
/// extension headers would answer to
pub fn view_request_ext(f: &[u8]) -> Option<ReqView> {
    let mut v = view_request(f)?;
    if let Some(ip) = &mut v.ip {
        if ip.v == 6 {
            let mut guard = 0;
            while [0u8, 43, 44, 60].contains(&ip.proto) && ip.l4.len() >= 8 && guard < 16 {
                let next = ip.l4[0];
                let hl = if ip.proto == 44 { 8 } else { (ip.l4[1] as usize + 1) * 8 };
                if hl > ip.l4.len() {
                    break;
                }
                ip.l4 = ip.l4[hl..].to_vec();
                ip.proto = next;
                guard += 1;
            }
        }
    }
    Some(v)
}

/// Insert IPv6 extension headers between the fixed header and the transport of a consistent
/// Ethernet/IPv6 frame. Each entry: (type 0 / 43 / 60 with `units` further 8-byte units and a PadN
/// / zero body, or 44 = atomic Fragment header), a byte for the header's second octet where that
/// octet is not a length (Fragment: reserved), units.
pub fn insert_ext6(f: &[u8], hdrs: &[(u8, u8, u8)]) -> Option<Vec<u8>> {
    if f.len() < 54 || be16(f, 12) != ET_V6 || f[14] >> 4 != 6 || be16(f, 18) as usize + 54 != f.len() || hdrs.is_empty() {
        return None;
    }
    let upper = f[20];
    let mut chain = Vec::new();
    for (i, (t, second, units)) in hdrs.iter().enumerate() {
        let next = hdrs.get(i + 1).map(|h| h.0).unwrap_or(upper);
        if *t == 44 {
            chain.extend_from_slice(&[next, *second, 0, 0, 0x12, 0x34, 0x56, 0x78]);
        } else {
            let u = (*units as usize).min(3);
            let n = 8 + 8 * u;
            let mut h = vec![0u8; n];
            h[0] = next;
            h[1] = u as u8;
            if *t == 43 {
                h[2] = *second; // routing type, segments left 0
            } else {
                h[2] = 1; // PadN
                h[3] = (n - 4) as u8;
            }
            chain.extend_from_slice(&h);
        }
    }
    let mut out = f[..54].to_vec();
    out[20] = hdrs[0].0;
    let pl = (f.len() - 54 + chain.len()).min(65535) as u16;
    out[18] = (pl >> 8) as u8;
    out[19] = pl as u8;
    out.extend_from_slice(&chain);
    out.extend_from_slice(&f[54..]);
    Some(out)
}

// ---------------------------------------------------------------------------------------
// header variations that do not change who is asked what

/// IP header fields that the responder is not documented to look at: type of service / traffic
/// class, identification / flow label, the three IPv4 flag bits (reserved, DF, MF — fragment
/// offset stays 0, so a set MF bit describes a first fragment that holds the complete request),
/// TTL / hop limit (>= 1).
#[derive(Clone, Debug, Serialize, Deserialize, PartialEq, Eq, Hash)]
pub struct IpTweak {
    pub tos: u8,
    pub id: u16,
    pub flags: u8,
    pub ttl: u8,
    /// TCP segments: the window field (what the peer says it can receive — not a limit on what a
    /// stateless responder sends) and the urgent pointer
    #[serde(default)]
    pub tcp_window: Option<u16>,
    #[serde(default)]
    pub tcp_urg: Option<u16>,
    /// bytes behind the end of the IP packet (Ethernet padding, as on every frame shorter than 60
    /// bytes on a real wire, or a trailer): not part of the packet, whatever they hold
    #[serde(default)]
    pub pad: u8,
}

thread_local! {
    static AMBIENT_TWEAK: std::cell::RefCell<Option<IpTweak>> = std::cell::RefCell::new(None);
}

/// header variation applied to every consistent IP frame built through `ip_frame` on this thread
/// until cleared (checks set it from their case data at the top of a case and clear it at the end)
pub fn set_ambient_tweak(t: Option<IpTweak>) {
    AMBIENT_TWEAK.with(|a| *a.borrow_mut() = t);
}

/// apply to a consistent Ethernet/IPv4 or Ethernet/IPv6 frame (no-op otherwise); the IPv4 header
/// checksum is recomputed; the hop limit of ICMPv6 neighbour discovery messages is left at 255
pub fn apply_ip_tweak(f: &mut Vec<u8>, t: &IpTweak) -> bool {
    let done = apply_ip_tweak_fields(f, t);
    if done && t.pad > 0 {
        let n = f.len();
        let fill = if t.pad % 2 == 0 { 0u8 } else { 0xa5 };
        f.resize(n + t.pad as usize, fill);
    }
    done
}

fn apply_ip_tweak_fields(f: &mut Vec<u8>, t: &IpTweak) -> bool {
    if f.len() < 14 + 20 {
        return false;
    }
    let et = be16(f, 12);
    if et == ET_V4 && f[14] >> 4 == 4 {
        let ihl = ((f[14] & 0x0f) as usize) * 4;
        if ihl < 20 || f.len() < 14 + ihl {
            return false;
        }
        f[15] = t.tos;
        f[18] = (t.id >> 8) as u8;
        f[19] = t.id as u8;
        f[20] = ((t.flags & 7) << 5) | (f[20] & 0x1f);
        f[22] = t.ttl.max(1);
        f[24] = 0;
        f[25] = 0;
        let c = inet_csum(&f[14..14 + ihl], 0);
        f[24] = (c >> 8) as u8;
        f[25] = c as u8;
        if f[23] == P_TCP && be16(f, 16) as usize == f.len() - 14 {
            tweak_tcp(f, 14 + ihl, t);
        }
        true
    } else if et == ET_V6 && f.len() >= 14 + 40 && f[14] >> 4 == 6 {
        f[14] = 0x60 | (t.tos >> 4);
        f[15] = (t.tos << 4) | ((t.flags & 0x0f) as u8);
        f[16] = (t.id >> 8) as u8;
        f[17] = t.id as u8;
        let nd = f[20] == P_ICMP6 && f.len() > 54 && (133..=137).contains(&f[54]);
        if !nd {
            f[21] = t.ttl.max(1);
        }
        if f[20] == P_TCP && be16(f, 18) as usize + 54 == f.len() {
            tweak_tcp(f, 54, t);
        }
        true
    } else {
        false
    }
}

fn tweak_tcp(f: &mut Vec<u8>, off: usize, t: &IpTweak) {
    if (t.tcp_window.is_none() && t.tcp_urg.is_none()) || f.len() < off + 20 {
        return;
    }
    if let Some(w) = t.tcp_window {
        f[off + 14] = (w >> 8) as u8;
        f[off + 15] = w as u8;
    }
    if let Some(u) = t.tcp_urg {
        f[off + 18] = (u >> 8) as u8;
        f[off + 19] = u as u8;
    }
    let v = match view_request(f) {
        Some(v) => v,
        None => return,
    };
    if let Some(ip) = v.ip {
        f[off + 16] = 0;
        f[off + 17] = 0;
        let seg = f[off..].to_vec();
        let c = inet_csum(&seg, pseudo(&ip.src, &ip.dst, P_TCP, seg.len()));
        f[off + 16] = (c >> 8) as u8;
        f[off + 17] = c as u8;
    }
}

/// An ICMP error message (IPv4: type 3/4/5/11/12 ...; IPv6: type 1..4) sent by the client of
/// `net`, quoting the header of a packet the *responder* would have sent to that client:
/// IP header (server -> client, `qproto`) followed by `l4` (the first bytes of the quoted
/// transport header).
pub fn icmp_error_frame(net: &Net, typ: u8, code: u8, qproto: u8, l4: &[u8]) -> Vec<u8> {
    match (&net.cip, &net.sip) {
        (IpAddr::V4(c), IpAddr::V4(s)) => {
            let q = ip4(&Ip4H::new(s.octets(), c.octets(), qproto), l4);
            let mut rest = vec![0u8; 4];
            rest.extend_from_slice(&q);
            ip_frame(net, P_ICMP, &icmp4(typ, code, &rest))
        }
        (IpAddr::V6(c), IpAddr::V6(s)) => {
            let q = ip6(&Ip6H::new(s.octets(), c.octets(), qproto), l4);
            let mut rest = vec![0u8; 4];
            rest.extend_from_slice(&q);
            ip_frame(net, P_ICMP6, &icmp6(&net.cip, &net.sip, typ, code, &rest))
        }
        _ => vec![],
    }
}

/// Rebuild a consistent Ethernet/IP frame with IPv4 header options and / or TCP options inserted
/// (lengths, data offset and checksums recomputed). None = the frame is not a plain 20-byte-header
/// IPv4 / 40-byte IPv6 packet (or its TCP header already has options): left alone.
pub fn insert_options(f: &[u8], ip4_opts: &[u8], tcp_opts: &[u8]) -> Option<Vec<u8>> {
    if f.len() < 14 + 20 || ip4_opts.len() % 4 != 0 || tcp_opts.len() % 4 != 0 || ip4_opts.len() > 40 || tcp_opts.len() > 40 {
        return None;
    }
    let et = be16(f, 12);
    let p = &f[14..];
    let (v4, hl, proto) = if et == ET_V4 && p[0] == 0x45 && be16(p, 2) as usize == p.len() {
        (true, 20usize, p[9])
    } else if et == ET_V6 && p.len() >= 40 && p[0] >> 4 == 6 && be16(p, 4) as usize + 40 == p.len() {
        (false, 40usize, p[6])
    } else {
        return None;
    };
    let mut l4 = p[hl..].to_vec();
    let (src, dst): (IpAddr, IpAddr) = if v4 {
        (IpAddr::V4(Ipv4Addr::new(p[12], p[13], p[14], p[15])), IpAddr::V4(Ipv4Addr::new(p[16], p[17], p[18], p[19])))
    } else {
        let mut s = [0u8; 16];
        s.copy_from_slice(&p[8..24]);
        let mut t = [0u8; 16];
        t.copy_from_slice(&p[24..40]);
        (IpAddr::V6(Ipv6Addr::from(s)), IpAddr::V6(Ipv6Addr::from(t)))
    };
    let mut changed = false;
    if proto == P_TCP && !tcp_opts.is_empty() && l4.len() >= 20 && l4[12] >> 4 == 5 {
        let mut n = l4[..20].to_vec();
        n[12] = (((20 + tcp_opts.len()) / 4) as u8) << 4 | (n[12] & 0x0f);
        n.extend_from_slice(tcp_opts);
        n.extend_from_slice(&l4[20..]);
        n[16] = 0;
        n[17] = 0;
        let c = inet_csum(&n, pseudo(&src, &dst, P_TCP, n.len()));
        n[16] = (c >> 8) as u8;
        n[17] = c as u8;
        l4 = n;
        changed = true;
    }
    let mut out = f[..14].to_vec();
    if v4 {
        let mut h = p[..20].to_vec();
        if !ip4_opts.is_empty() {
            h[0] = 0x40 | ((20 + ip4_opts.len()) / 4) as u8;
            h.extend_from_slice(ip4_opts);
            changed = true;
        }
        let tl = (h.len() + l4.len()).min(65535) as u16;
        h[2] = (tl >> 8) as u8;
        h[3] = tl as u8;
        h[10] = 0;
        h[11] = 0;
        let c = inet_csum(&h, 0);
        h[10] = (c >> 8) as u8;
        h[11] = c as u8;
        out.extend_from_slice(&h);
    } else {
        let mut h = p[..40].to_vec();
        let pl = l4.len().min(65535) as u16;
        h[4] = (pl >> 8) as u8;
        h[5] = pl as u8;
        out.extend_from_slice(&h);
    }
    out.extend_from_slice(&l4);
    if changed {
        Some(out)
    } else {
        None
    }
}

/// insert IEEE 802.1Q / 802.1ad tags (TPID, TCI) behind the MAC addresses of a frame
pub fn vlan_tagged(f: &[u8], tags: &[(u16, u16)]) -> Vec<u8> {
    if f.len() < 12 {
        return f.to_vec();
    }
    let mut v = f[..12].to_vec();
    for (tpid, tci) in tags {
        v.extend_from_slice(&tpid.to_be_bytes());
        v.extend_from_slice(&tci.to_be_bytes());
    }
    v.extend_from_slice(&f[12..]);
    v
}

/// sets the ambient header variation for the lifetime of the guard
pub struct AmbientGuard;

impl AmbientGuard {
    pub fn set(t: &Option<IpTweak>) -> AmbientGuard {
        set_ambient_tweak(t.clone());
        AmbientGuard
    }
}

impl Drop for AmbientGuard {
    fn drop(&mut self) {
        set_ambient_tweak(None);
    }
}
