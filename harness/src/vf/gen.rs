// Network-level generators: configurations, addresses, in-scope scenarios.

use proptest::collection::vec;
use proptest::prelude::*;
use serde::{Deserialize, Serialize};
use std::net::{IpAddr, Ipv4Addr, Ipv6Addr};

use super::codec::*;
use super::sut::{Cfg, LoggerKind};
use super::util::*;

pub fn mac_unicast() -> impl Strategy<Value = [u8; 6]> {
    any::<[u8; 6]>().prop_map(|mut m| {
        m[0] &= 0xfe;
        m
    })
}

/// source MAC of a client: mostly unicast; sometimes broadcast, a group address, all-zero
/// (the responder is not documented to look at the source MAC: replies go back to it verbatim)
pub fn client_mac() -> impl Strategy<Value = [u8; 6]> {
    prop_oneof![
        14 => mac_unicast(),
        1 => Just(BCAST),
        1 => any::<[u8; 6]>().prop_map(|mut m| { m[0] |= 1; m }),
        1 => Just([0u8; 6]),
    ]
}

pub fn any_mac() -> impl Strategy<Value = [u8; 6]> {
    prop_oneof![
        6 => mac_unicast(),
        1 => any::<[u8; 6]>(),
        1 => Just([0u8; 6]),
        1 => Just(BCAST),
    ]
}

pub fn ip4_addr() -> impl Strategy<Value = [u8; 4]> {
    prop_oneof![
        10 => any::<[u8; 4]>(),
        1 => Just([0, 0, 0, 0]),
        1 => Just([255, 255, 255, 255]),
        1 => Just([127, 0, 0, 1]),
        1 => any::<[u8; 3]>().prop_map(|a| [224, a[0], a[1], a[2]]),
        1 => any::<[u8; 2]>().prop_map(|a| [10, 0, a[0], a[1]]),
    ]
}

pub fn ip6_addr() -> impl Strategy<Value = [u8; 16]> {
    prop_oneof![
        8 => any::<[u8; 16]>(),
        1 => Just([0u8; 16]),
        1 => Just({ let mut a = [0u8; 16]; a[15] = 1; a }),
        2 => any::<[u8; 8]>().prop_map(|t| { let mut a = [0u8; 16]; a[0] = 0xfe; a[1] = 0x80; a[8..].copy_from_slice(&t); a }),
        1 => any::<[u8; 3]>().prop_map(|t| { let mut a = [0u8; 16]; a[0] = 0xff; a[1] = 0x02; a[11] = 1; a[12] = 0xff; a[13..].copy_from_slice(&t); a }),
        1 => any::<[u8; 4]>().prop_map(|t| { let mut a = [0u8; 16]; a[10] = 0xff; a[11] = 0xff; a[12..].copy_from_slice(&t); a }),
    ]
}

pub fn ipaddr(v4: bool) -> BoxedStrategy<IpAddr> {
    if v4 {
        ip4_addr().prop_map(|a| IpAddr::V4(Ipv4Addr::from(a))).boxed()
    } else {
        ip6_addr().prop_map(|a| IpAddr::V6(Ipv6Addr::from(a))).boxed()
    }
}

pub fn port() -> impl Strategy<Value = u16> {
    prop_oneof![
        10 => any::<u16>(),
        1 => Just(0u16),
        1 => Just(65535u16),
        1 => Just(65534u16),
        3 => prop::sample::select(vec![22u16, 53, 80, 111, 139, 443, 445, 3478, 8080, 1]),
        3 => prop::sample::select(WELL_KNOWN_PORTS.to_vec()),
    ]
}

/// ports with an assigned service that software is apt to special-case (IANA registry: simple
/// services, name services, RPC, directory, VoIP, proxies, databases, ...)
pub const WELL_KNOWN_PORTS: [u16; 64] = [
    7, 9, 13, 17, 19, 20, 21, 23, 25, 37, 67, 68, 69, 79, 88, 110, 113, 119, 123, 135, 137, 138, 143, 161, 162, 179, 389, 427, 465, 500, 512, 513, 514, 515, 520, 554, 587, 631, 636, 873, 993, 995, 1080, 1194, 1433,
    1521, 1723, 1883, 1900, 2049, 2222, 3128, 3306, 3389, 4500, 5060, 5353, 5355, 5432, 5900, 6379, 8443, 8888, 11211,
];

pub fn logger_kind() -> impl Strategy<Value = LoggerKind> {
    prop_oneof![
        4 => Just(LoggerKind::None),
        2 => Just(LoggerKind::Console),
        2 => Just(LoggerKind::Logfmt),
        1 => Just(LoggerKind::Struct),
    ]
}

#[derive(Clone, Debug, Serialize, Deserialize, PartialEq, Hash)]
pub struct Lists {
    pub self4: Vec<[u8; 4]>,
    pub self6: Vec<[u8; 16]>,
    pub has_self: bool,
    pub deny4: Vec<[u8; 4]>,
    pub deny6: Vec<[u8; 16]>,
    pub has_deny: bool,
}

pub fn lists() -> impl Strategy<Value = Lists> {
    (vec(ip4_addr(), 1..=4), vec(ip6_addr(), 0..=3), any::<bool>(), vec(ip4_addr(), 0..=2), vec(ip6_addr(), 0..=2), prop::bool::weighted(0.4)).prop_map(
        |(self4, self6, has_self, deny4, deny6, has_deny)| Lists { self4, self6, has_self, deny4, deny6, has_deny },
    )
}

/// A configuration together with a client/server address pair that is *in scope* for it:
/// destination MAC authorised, destination IP handled (if a self-IP list is configured),
/// source IP not denied. Constructed, not filtered.
#[derive(Clone, Debug, Serialize, Deserialize, PartialEq)]
pub struct Scenario {
    pub cfg: Cfg,
    pub net: Net,
}

#[derive(Clone, Copy, Debug, PartialEq)]
pub enum Fam {
    V4,
    V6,
    Any,
}

pub fn scenario(fam: Fam) -> BoxedStrategy<Scenario> {
    let v4s = match fam {
        Fam::V4 => Just(true).boxed(),
        Fam::V6 => Just(false).boxed(),
        Fam::Any => any::<bool>().boxed(),
    };
    (
        (mac_unicast(), client_mac(), any::<[u64; 2]>(), lists(), v4s),
        (ip4_addr(), ip6_addr(), ip4_addr(), ip6_addr(), any::<u16>(), 0u8..10, logger_kind(), 0u8..=5),
    )
        .prop_map(|((mac, cmac, key, mut l, v4), (c4, c6, s4, s6, pick_s, dmac_kind, logger, level))| {
            // server address: from S if configured, else arbitrary
            if !v4 && l.has_self && l.self6.is_empty() {
                l.self6.push(s6);
            }
            let sip: IpAddr = if v4 {
                if l.has_self {
                    IpAddr::V4(Ipv4Addr::from(l.self4[pick(pick_s, l.self4.len())]))
                } else {
                    IpAddr::V4(Ipv4Addr::from(s4))
                }
            } else if l.has_self {
                IpAddr::V6(Ipv6Addr::from(l.self6[pick(pick_s, l.self6.len())]))
            } else {
                IpAddr::V6(Ipv6Addr::from(s6))
            };
            let cip: IpAddr = if v4 { IpAddr::V4(Ipv4Addr::from(c4)) } else { IpAddr::V6(Ipv6Addr::from(c6)) };
            // deny list never contains the client (constructed)
            l.deny4.retain(|a| IpAddr::V4(Ipv4Addr::from(*a)) != cip);
            l.deny6.retain(|a| IpAddr::V6(Ipv6Addr::from(*a)) != cip);
            let self_ips: Option<Vec<IpAddr>> = if l.has_self {
                Some(l.self4.iter().map(|a| IpAddr::V4(Ipv4Addr::from(*a))).chain(l.self6.iter().map(|a| IpAddr::V6(Ipv6Addr::from(*a)))).collect())
            } else {
                None
            };
            let deny: Option<Vec<IpAddr>> = if l.has_deny && (l.deny4.len() + l.deny6.len() > 0) {
                Some(l.deny4.iter().map(|a| IpAddr::V4(Ipv4Addr::from(*a))).chain(l.deny6.iter().map(|a| IpAddr::V6(Ipv6Addr::from(*a)))).collect())
            } else {
                None
            };
            // authorised destination MAC
            let dmac = match dmac_kind {
                0 => BCAST,
                1 => ALLNODES,
                2 if l.has_self => match &sip {
                    IpAddr::V4(a) => v4_mcast_mac(&a.octets()),
                    IpAddr::V6(a) => solicited_node_mac(&a.octets()),
                },
                _ => mac,
            };
            Scenario { cfg: Cfg { mac, self_ips, deny, key, logger, level }, net: Net { cmac, dmac, cip, sip } }
        })
        .boxed()
}

/// Scenario without real loggers / log level (for properties where they are irrelevant and only
/// cost time); logger None, level Off.
pub fn scenario_quiet(fam: Fam) -> BoxedStrategy<Scenario> {
    scenario(fam)
        .prop_map(|mut s| {
            s.cfg.logger = LoggerKind::None;
            s.cfg.level = 0;
            s
        })
        .boxed()
}

/// Scenario without a real logger but with every log level (Off..Trace): the arguments of the
/// log macros are evaluated, nothing is printed
pub fn scenario_levels(fam: Fam) -> BoxedStrategy<Scenario> {
    scenario(fam)
        .prop_map(|mut s| {
            s.cfg.logger = LoggerKind::None;
            s
        })
        .boxed()
}

/// Reference implementation of the statement's authorised destination MAC set.
pub fn auth_macs(cfg: &Cfg) -> Vec<[u8; 6]> {
    let mut v = vec![cfg.mac, BCAST, ALLNODES];
    if let Some(l) = &cfg.self_ips {
        for ip in l {
            match ip {
                IpAddr::V4(a) => v.push(v4_mcast_mac(&a.octets())),
                IpAddr::V6(a) => v.push(solicited_node_mac(&a.octets())),
            }
        }
    }
    v
}

pub fn bytes(max: usize) -> impl Strategy<Value = Hex> {
    vec(any::<u8>(), 0..=max).prop_map(Hex)
}

/// a different 4-tuple component helper: some other address of the same family
pub fn other_ip(ip: &IpAddr, salt: u8) -> IpAddr {
    match ip {
        IpAddr::V4(a) => {
            let mut o = a.octets();
            o[3] = o[3].wrapping_add(1 + (salt % 200));
            IpAddr::V4(Ipv4Addr::from(o))
        }
        IpAddr::V6(a) => {
            let mut o = a.octets();
            o[15] = o[15].wrapping_add(1 + (salt % 200));
            IpAddr::V6(Ipv6Addr::from(o))
        }
    }
}
