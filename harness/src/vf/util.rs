use serde::{Deserialize, Deserializer, Serialize, Serializer};
use std::hash::{Hash, Hasher};

pub fn hex(b: &[u8]) -> String {
    let mut s = String::with_capacity(b.len() * 2);
    for x in b {
        s.push_str(&format!("{:02x}", x));
    }
    s
}

pub fn unhex(s: &str) -> Option<Vec<u8>> {
    let s: Vec<u8> = s.bytes().filter(|c| !c.is_ascii_whitespace()).collect();
    if s.len() % 2 != 0 {
        return None;
    }
    let mut v = Vec::with_capacity(s.len() / 2);
    for i in (0..s.len()).step_by(2) {
        let h = (s[i] as char).to_digit(16)?;
        let l = (s[i + 1] as char).to_digit(16)?;
        v.push((h * 16 + l) as u8);
    }
    Some(v)
}

/// Bytes that serialise as a hex string (replay files stay readable).
#[derive(Clone, PartialEq, Eq, Hash, Default)]
pub struct Hex(pub Vec<u8>);

impl std::fmt::Debug for Hex {
    fn fmt(&self, f: &mut std::fmt::Formatter<'_>) -> std::fmt::Result {
        write!(f, "x\"{}\"", hex(&self.0))
    }
}

impl Serialize for Hex {
    fn serialize<S: Serializer>(&self, s: S) -> Result<S::Ok, S::Error> {
        s.serialize_str(&hex(&self.0))
    }
}

impl<'de> Deserialize<'de> for Hex {
    fn deserialize<D: Deserializer<'de>>(d: D) -> Result<Self, D::Error> {
        let s = String::deserialize(d)?;
        unhex(&s).map(Hex).ok_or_else(|| serde::de::Error::custom("bad hex"))
    }
}

impl std::ops::Deref for Hex {
    type Target = Vec<u8>;
    fn deref(&self) -> &Vec<u8> {
        &self.0
    }
}

/// Deterministic 64-bit hash (FNV-1a) used for distinct-case counting and seeds.
pub fn fnv(b: &[u8]) -> u64 {
    let mut h: u64 = 0xcbf29ce484222325;
    for x in b {
        h ^= *x as u64;
        h = h.wrapping_mul(0x100000001b3);
    }
    h
}

struct FnvHasher(u64);
impl Hasher for FnvHasher {
    fn finish(&self) -> u64 {
        self.0
    }
    fn write(&mut self, b: &[u8]) {
        for x in b {
            self.0 ^= *x as u64;
            self.0 = self.0.wrapping_mul(0x100000001b3);
        }
    }
}

pub fn hash_of<T: Hash>(t: &T) -> u64 {
    let mut h = FnvHasher(0xcbf29ce484222325);
    t.hash(&mut h);
    h.finish()
}

pub fn be16(b: &[u8], o: usize) -> u16 {
    ((b[o] as u16) << 8) | b[o + 1] as u16
}
pub fn be32(b: &[u8], o: usize) -> u32 {
    ((b[o] as u32) << 24) | ((b[o + 1] as u32) << 16) | ((b[o + 2] as u32) << 8) | b[o + 3] as u32
}
pub fn le16(b: &[u8], o: usize) -> u16 {
    ((b[o + 1] as u16) << 8) | b[o] as u16
}
pub fn le32(b: &[u8], o: usize) -> u32 {
    ((b[o + 3] as u32) << 24) | ((b[o + 2] as u32) << 16) | ((b[o + 1] as u32) << 8) | b[o] as u32
}
pub fn le64(b: &[u8], o: usize) -> u64 {
    (le32(b, o) as u64) | ((le32(b, o + 4) as u64) << 32)
}

/// monotone index mapping (shrinks towards 0)
pub fn pick(i: u16, len: usize) -> usize {
    if len == 0 {
        0
    } else {
        ((i as usize) * len) >> 16
    }
}
