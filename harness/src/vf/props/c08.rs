// C08 — flows do not interfere: a reply depends only on the frame and its own flow.
//
// Metamorphic relation: reply(f | h) = reply(f | h restricted to the accepted data segments of
// f's own 4-tuple), modulo wall-clock fields, for every probe position of a generated history.

use proptest::collection::vec;
use proptest::prelude::*;
use serde::{Deserialize, Serialize};
use serde_json::{json, Value};
use std::collections::HashMap;
use std::net::{IpAddr, Ipv4Addr};

use crate::vf::codec::*;
use crate::vf::engine::*;
use crate::vf::gen::*;
use crate::vf::gen_app::*;
use crate::vf::normalise::*;
use crate::vf::session::*;
use crate::vf::shadow::{shadow_opt, Shadow, ShadowGuard};
use crate::vf::sut::*;
use crate::vf::traffic::*;
use crate::vf::util::*;

pub struct C08;

#[derive(Clone, Debug, Serialize, Deserialize, PartialEq)]
pub enum HStep {
    /// next chunk of flow f's session stream (valid seq/ack bookkeeping)
    Chunk { f: u8, len: u8 },
    /// a data segment on flow f with a wrong acknowledgement number
    BadAck { f: u8, delta: u32 },
    /// a data segment on flow f whose acknowledgement number is flow g's cookie + 1 (g != f: wrong
    /// for f), carrying bytes that would complete a request pending on g
    CrossAck { f: u8, g: u8, kind: u8 },
    Syn { f: u8 },
    /// non-data TCP segment (FIN|ACK, ACK, RST, FIN, SYN|ACK ...) on flow f whose sequence /
    /// acknowledgement numbers are related to flow g's cookie (ack = cookie(g)+1, seq = cookie(g))
    NonData { f: u8, g: u8, flags: u16, seq_is_cookie: bool },
    /// traffic that shares part of a flow's identity: the flows' client IP address with another
    /// source MAC, or the flows' MAC with another IP address (ARP request, echo, SYN, UDP)
    Alias { kind: u8, mac: [u8; 6], same_ip: bool },
    /// ICMP / ICMPv6 error from the flows' client quoting a packet the responder sent to it: the
    /// SYN-ACK of flow `f` (f < 3) or the answer to the client's UDP datagram (f = 3: ports of
    /// `UdpSame`)
    IcmpErr { typ4: u8, typ6: u8, code: u8, f: u8, l4_len: u8 },
    /// an answerable UDP datagram from the flows' client (source port = the case's sport,
    /// destination port = the case's dport)
    UdpSame { kind: u8 },
    Other(Step),
}

#[derive(Clone, Debug, Serialize, Deserialize, PartialEq)]
pub struct Case {
    pub scn: Scenario,
    pub sport: u16,
    pub dport: u16,
    /// per-flow byte streams (application requests, partial requests, garbage)
    pub streams: Vec<Hex>,
    pub hist: Vec<HStep>,
    /// sibling traffic (vf/shadow.rs) accompanying every frame of the *history* run — more
    /// traffic of other flows, carrying the same payloads; the isolated re-runs have none
    #[serde(default)]
    pub shadow: Option<Shadow>,
}

fn stream() -> impl Strategy<Value = Hex> {
    prop_oneof![
        4 => app_req().prop_map(|a| Hex(a.bytes(true))),
        2 => (app_req(), app_req()).prop_map(|(a, b)| { let mut v = a.bytes(true); v.extend_from_slice(&b.bytes(true)); Hex(v) }),
        1 => vec(any::<u8>(), 0..80).prop_map(Hex),
    ]
}

pub fn case_strategy() -> impl Strategy<Value = Case> {
    (case_strategy0(), shadow_opt()).prop_map(|(mut c, sh)| {
        c.shadow = sh;
        c
    })
}

fn case_strategy0() -> impl Strategy<Value = Case> {
    (
        scenario_quiet(Fam::Any),
        1024u16..30000,
        port(),
        vec(stream(), 3),
        vec(
            prop_oneof![
                8 => (0u8..3, prop_oneof![2 => 1u8..12, 2 => 12u8..80, 1 => Just(255u8)]).prop_map(|(f, len)| HStep::Chunk { f, len }),
                1 => (0u8..3, 1u32..100000).prop_map(|(f, delta)| HStep::BadAck { f, delta }),
                1 => (0u8..3, 1u8..3, 0u8..3).prop_map(|(f, d, kind)| HStep::CrossAck { f, g: (f + d) % 3, kind }),
                1 => (0u8..3).prop_map(|f| HStep::Syn { f }),
                2 => (0u8..3, 0u8..3, prop::sample::select(vec![F_FIN | F_ACK, F_ACK, F_RST, F_RST | F_ACK, F_FIN, F_SYN | F_ACK, F_FIN | F_ACK | F_URG]), any::<bool>()).prop_map(|(f, g, flags, seq_is_cookie)| HStep::NonData { f, g, flags, seq_is_cookie }),
                2 => (0u8..4, mac_unicast(), any::<bool>()).prop_map(|(kind, mac, same_ip)| HStep::Alias { kind, mac, same_ip }),
                1 => (icmp_err_type(), prop_oneof![3 => 0u8..6, 1 => any::<u8>()], 0u8..4, prop_oneof![3 => Just(8u8), 1 => 8u8..40]).prop_map(|((typ4, typ6), code, f, l4_len)| HStep::IcmpErr { typ4, typ6, code, f, l4_len }),
                1 => (0u8..3).prop_map(|kind| HStep::UdpSame { kind }),
                4 => step_noise().prop_map(HStep::Other),
            ],
            2..=24,
        ),
    )
        .prop_map(|(scn, sport, dport, streams, hist)| Case { scn, sport, dport, streams, hist, shadow: None })
}

#[derive(Clone)]
struct Played {
    frame: Vec<u8>,
    /// Some(4-tuple key) for TCP segments carrying PSH|ACK
    data_flow: Option<Vec<u8>>,
    out: Out,
}

fn flow_key(f: &[u8]) -> Option<Vec<u8>> {
    let v = view_request(f)?;
    let ip = v.ip?;
    if ip.proto != P_TCP || ip.l4.len() < 20 {
        return None;
    }
    let flags = ip.l4[13];
    if flags & 0x18 != 0x18 {
        return None;
    }
    let mut k = ip_octets(&ip.src);
    k.extend_from_slice(&ip_octets(&ip.dst));
    k.extend_from_slice(&ip.l4[0..4]);
    Some(k)
}

fn play(c: &Case, st: &mut Stats) -> Result<Vec<Played>, Failure> {
    Sut::reset();
    let cfg = cfg_of(c);
    let sut = Sut::new(&cfg);
    let net = &c.scn.net;
    let mut flows: Vec<Flow> = (0..3).map(|i| Flow { net: net.clone(), sport: c.sport.wrapping_add(i as u16), dport: c.dport }).collect();
    // flow 2: same peer, same ports as flow 0, another local (destination) address
    let mut n2 = net.clone();
    n2.sip = other_ip(&net.sip, 1);
    n2.dmac = cfg.mac;
    flows[2] = Flow { net: n2, sport: c.sport, dport: c.dport };
    let mut cookies = Vec::new();
    for f in &flows {
        cookies.push(learn_cookie(&sut, f, 100).map_err(|e| Failure::new(format!("in-scope SYN not answered: {}", e)))?);
    }
    if cookies[0] == cookies[1] || cookies[0] == cookies[2] || cookies[1] == cookies[2] {
        // three flows constructed to differ in one tuple component each. A chance collision (the
        // listed finding `cookie-collision`, 2^-32 per pair) depends on the key; neighbours that
        // collide under a second key too are not told apart by the responder
        let mut cfg2 = cfg.clone();
        cfg2.key = [cfg.key[0] ^ 0x9e37_79b9_7f4a_7c15, cfg.key[1].rotate_left(17) ^ 0x51];
        let s2 = Sut::new(&cfg2);
        let k2: Vec<Result<u32, String>> = flows.iter().map(|f| learn_cookie(&s2, f, 100)).collect();
        let again = |a: usize, b: usize| cookies[a] == cookies[b] && k2[a].is_ok() && k2[a] == k2[b];
        if !(again(0, 1) || again(0, 2) || again(1, 2)) {
            st.exclude("cookie-collision");
            return Ok(vec![]);
        }
        return Err(Failure::new(format!("two of the case's three flows (source ports {} / {} and the destination-address sibling) got the same SYN cookie ({:#010x} {:#010x} {:#010x}): they share one control block", c.sport, c.sport.wrapping_add(1), cookies[0], cookies[1], cookies[2])));
    }
    let mut off = vec![0usize; 3];
    let mut world = World::new(&sut, net, 52000, 9);
    let mut played = Vec::new();
    for h in &c.hist {
        let frame = match h {
            HStep::Chunk { f, len } => {
                let fi = *f as usize % 3;
                let s = &c.streams[fi];
                let end = (off[fi] + *len as usize).min(s.len());
                let seg = &s[off[fi]..end];
                let fr = flows[fi].data(101u32.wrapping_add(off[fi] as u32), cookies[fi].wrapping_add(1), seg);
                off[fi] = end;
                fr
            }
            HStep::BadAck { f, delta } => {
                let fi = *f as usize % 3;
                flows[fi].data(101, cookies[fi].wrapping_add(1).wrapping_add(*delta), b"GET / HTTP/1.1\r\n\r\n")
            }
            HStep::CrossAck { f, g, kind } => {
                let (fi, gi) = (*f as usize % 3, *g as usize % 3);
                let p: &[u8] = match kind % 3 { 0 => b"\r\n\r\n", 1 => b"GET / HTTP/1.1\r\n\r\n", _ => b"x" };
                flows[fi].data(101u32.wrapping_add(off[fi] as u32), cookies[gi].wrapping_add(1), p)
            }
            HStep::Syn { f } => flows[*f as usize % 3].syn(100),
            HStep::NonData { f, g, flags, seq_is_cookie } => {
                let (fi, gi) = (*f as usize % 3, *g as usize % 3);
                let seq = if *seq_is_cookie { cookies[gi] } else { 101u32.wrapping_add(off[fi] as u32) };
                flows[fi].seg(seq, cookies[gi].wrapping_add(1), *flags, &[])
            }
            HStep::Alias { kind, mac, same_ip } => {
                let mut n = net.clone();
                if *same_ip {
                    n.cmac = *mac;
                } else {
                    n.cip = other_ip(&net.cip, mac[5]);
                    if c.scn.cfg.denied(&n.cip) {
                        n.cip = net.cip;
                    }
                }
                match (*kind % 4, &n.cip, &n.sip) {
                    (0, IpAddr::V4(ci), IpAddr::V4(si)) => arp_req_frame(&n.cmac, &n.dmac, ci.octets(), si.octets()),
                    (0, _, IpAddr::V6(si)) => ns_frame(&n, &si.octets(), &[1, 1, n.cmac[0], n.cmac[1], n.cmac[2], n.cmac[3], n.cmac[4], n.cmac[5]]),
                    (1, _, _) => echo_frame(&n, 7, 7, b"alias"),
                    (2, _, _) => tcp_frame(&n, &TcpH::new(c.sport, c.dport, 5, 0, F_SYN), &[]),
                    _ => udp_frame(&n, c.sport, c.dport, &StunReq { mtype: 1, magic: true, id: [3; 16], attrs: vec![], trailer: Hex(vec![]) }.bytes()),
                }
            }
            HStep::IcmpErr { typ4, typ6, code, f, l4_len } => {
                let typ = if net.is_v4() { *typ4 } else { *typ6 };
                let n = (*l4_len as usize).max(8);
                if *f < 3 {
                    let fi = *f as usize;
                    let mut l4 = tcp_seg(&net.sip, &net.cip, &TcpH::new(flows[fi].dport, flows[fi].sport, cookies[fi], 101, F_SYN | F_ACK), &[]);
                    l4.resize(n, 0);
                    icmp_error_frame(net, typ, *code, P_TCP, &l4)
                } else {
                    let mut l4 = udp_dgram(&net.sip, &net.cip, c.dport, c.sport, &[0u8; 32], None);
                    l4.truncate(n.min(l4.len()));
                    icmp_error_frame(net, typ, *code, P_UDP, &l4)
                }
            }
            HStep::UdpSame { kind } => {
                let p = match kind % 3 {
                    0 => StunReq { mtype: 1, magic: true, id: [5; 16], attrs: vec![], trailer: Hex(vec![]) }.bytes(),
                    1 => DnsQuery { id: 77, flags: 0x0100, questions: vec![DnsQuestion { labels: vec![Hex(b"example".to_vec()), Hex(b"com".to_vec())], qtype: 1, qclass: 1 }] }.bytes(),
                    _ => b"GET / HTTP/1.1\r\n\r\n".to_vec(),
                };
                udp_frame(net, c.sport, c.dport, &p)
            }
            HStep::Other(s) => world.realize(s),
        };
        let out = sut.frame(&frame);
        if let Out::Panic(p) = &out {
            return Err(Failure::keyed(p.key(), format!("panic: {} {}", p.file, p.msg)));
        }
        played.push(Played { data_flow: flow_key(&frame), frame, out });
    }
    st.frames(played.len() as u64 + 3 + world.sent);
    Ok(played)
}

/// the case's configuration with flow 2's destination address added to the self-IP list
fn cfg_of(c: &Case) -> Cfg {
    let mut cfg = c.scn.cfg.clone();
    if let Some(l) = &mut cfg.self_ips {
        l.push(other_ip(&c.scn.net.sip, 1));
    }
    cfg
}

fn norm(o: &Out) -> Out {
    match o {
        Out::Reply(r) => Out::Reply(normalise_frame(r)),
        other => other.clone(),
    }
}

pub fn check(c: &Case, st: &mut Stats) -> Check {
    st.eval();
    let played = {
        let _g = ShadowGuard::set(&c.shadow);
        let p = play(c, st);
        if c.shadow.is_some() {
            st.class("history-accompanied-by-shadow-traffic");
            st.add_extra("shadow_frames", crate::vf::shadow::frames_sent());
            if crate::vf::shadow::tainted() {
                st.exclude("shadow-tuple-collision");
                return Ok(());
            }
        }
        p?
    };
    if played.is_empty() {
        return Ok(());
    }
    let sut = Sut::new(&cfg_of(c));
    // probes: every position (the isolated re-run costs only the own-flow prefix)
    let mut other_flow_data_seen = false;
    let mut accepted_by_flow: HashMap<Vec<u8>, Vec<usize>> = HashMap::new();
    let mut nontrivial = false;
    for (p, pl) in played.iter().enumerate() {
        // isolated run: only the accepted data segments of the probe's own flow
        Sut::reset();
        let own: Vec<usize> = match &pl.data_flow {
            Some(k) => accepted_by_flow.get(k).cloned().unwrap_or_default(),
            None => vec![],
        };
        for i in &own {
            let _ = sut.frame(&played[*i].frame);
        }
        let r2 = sut.frame(&pl.frame);
        st.frames(own.len() as u64 + 1);
        let others_accepted = accepted_by_flow.iter().any(|(k, v)| Some(k) != pl.data_flow.as_ref() && !v.is_empty());
        if others_accepted && (pl.out.reply().is_some() || pl.data_flow.is_some()) {
            nontrivial = true;
        }
        if norm(&pl.out) != norm(&r2) {
            return Err(Failure::new(format!(
                "history position {}: reply differs from the reply to the same frame after only the {} accepted data segments of its own flow.\n frame: {}\n in history: {}\n isolated:   {}",
                p,
                own.len(),
                hex(&pl.frame[..pl.frame.len().min(200)]),
                pl.out.brief().chars().take(400).collect::<String>(),
                r2.brief().chars().take(400).collect::<String>()
            )));
        }
        // bookkeeping: an accepted data segment = a data segment that was answered
        if let Some(k) = &pl.data_flow {
            if pl.out.reply().is_some() {
                accepted_by_flow.entry(k.clone()).or_default().push(p);
                other_flow_data_seen = true;
            }
        }
    }
    let _ = other_flow_data_seen;
    let kinds: Vec<&str> = c.hist.iter().map(|h| match h { HStep::Chunk { .. } => "chunk", HStep::BadAck { .. } => "bad-ack", HStep::CrossAck { .. } => "data-acking-another-flow's-cookie", HStep::Syn { .. } => "syn", HStep::NonData { .. } => "non-data-tcp(ack related to another flow's cookie)", HStep::Alias { .. } => "alias(shared IP or MAC)", HStep::IcmpErr { .. } => "icmp-error(quoting a reply to the client)", HStep::UdpSame { .. } => "udp(same client, same ports)", HStep::Other(_) => "other" }).collect();
    for k in &kinds {
        st.class(&format!("hist:{}", k));
    }
    if nontrivial {
        st.nontrivial_hash(fnv(serde_json::to_string(c).unwrap_or_default().as_bytes()));
        st.sample(|| json!({"history": c.hist.iter().map(|h| match h { HStep::Other(s) => format!("other({})", s.kind()), x => format!("{:?}", x) }).collect::<Vec<_>>(), "stream_lens": c.streams.iter().map(|s| s.len()).collect::<Vec<_>>()}));
    }
    Ok(())
}

// ---------------------------------------------------------------------------------------
// crowds: a connection is not affected by any number of other connections opened meanwhile

#[derive(Clone, Debug, Serialize, Deserialize, PartialEq)]
pub struct CrowdCase {
    pub scn: Scenario,
    pub sport: u16,
    pub dport: u16,
    pub first: AppReq,
    pub second: Hex,
    /// acknowledge the responder's answer to the first segment (as a real client does) or keep
    /// acknowledging cookie+1
    pub ack_advances: bool,
    pub others: u32,
}

fn crowd_run(c: &CrowdCase, others: u32) -> Result<(Out, Out), Failure> {
    Sut::reset();
    let sut = Sut::new(&c.scn.cfg);
    let net = &c.scn.net;
    let v = Flow { net: net.clone(), sport: c.sport, dport: c.dport };
    let k = learn_cookie(&sut, &v, 500).map_err(Failure::new)?;
    let fb = c.first.bytes(true);
    let o1 = sut.frame(&v.data(501, k.wrapping_add(1), &fb));
    let answered: u32 = match &o1 {
        Out::Reply(r) => decode_reply(r).ok().and_then(|d| d.tcp().map(|t| t.payload.len() as u32)).unwrap_or(0),
        _ => 0,
    };
    for i in 0..others {
        let f = Flow { net: net.clone(), sport: (i as u16) ^ 0x3333, dport: 7000u16.wrapping_add((i >> 16) as u16) };
        if (f.sport, f.dport) == (c.sport, c.dport) {
            continue;
        }
        if let Ok(kk) = learn_cookie(&sut, &f, i) {
            let _ = sut.frame(&f.data(i.wrapping_add(1), kk.wrapping_add(1), b"hello"));
        }
    }
    let ack = if c.ack_advances { k.wrapping_add(1).wrapping_add(answered) } else { k.wrapping_add(1) };
    let o2 = sut.frame(&v.data(501u32.wrapping_add(fb.len() as u32), ack, &c.second));
    Ok((o1, o2))
}

pub fn crowd_check(c: &CrowdCase, st: &mut Stats) -> Check {
    st.eval();
    let (a1, a2) = crowd_run(c, c.others)?;
    let (b1, b2) = crowd_run(c, 0)?;
    st.frames(6 + 2 * c.others as u64);
    st.class(&format!("crowd:{}-other-connections:victim-{}:{}", c.others, c.first.kind(), if c.ack_advances { "ack-advances" } else { "ack-stays" }));
    st.nontrivial(&(c.others, c.first.kind(), c.ack_advances));
    for o in [&a1, &a2, &b1, &b2] {
        if let Out::Panic(p) = o {
            return Err(Failure::keyed(p.key(), format!("panic: {} {}", p.file, p.msg)));
        }
    }
    vensure!(norm(&a1) == norm(&b1), "first segment answered differently in two identical runs");
    if norm(&a2) != norm(&b2) {
        vfail!(
            "the second segment of a connection ({} request first, {}) is answered differently when {} other connections are opened in between: {} vs {}",
            c.first.kind(),
            if c.ack_advances { "acknowledging the answer" } else { "ack unchanged" },
            c.others,
            a2.brief().chars().take(200).collect::<String>(),
            b2.brief().chars().take(200).collect::<String>()
        );
    }
    Ok(())
}

// ---------------------------------------------------------------------------------------
// directed: two distinct 4-tuples with equal cookies (birthday search)

#[derive(Clone, Debug, Serialize, Deserialize, PartialEq)]
pub struct Collision {
    pub key: [u64; 2],
    pub a: ([u8; 4], u16, u16),
    pub b: ([u8; 4], u16, u16),
}

pub fn birthday(key: [u64; 2], n: u32) -> Option<Collision> {
    use crate::client::ClientInfo;
    let mut seen: HashMap<u32, ([u8; 4], u16, u16)> = HashMap::with_capacity(n as usize);
    let mut ci = ClientInfo::new();
    ci.ip.dst = Some(IpAddr::V4(Ipv4Addr::new(10, 9, 8, 7)));
    for i in 0..n {
        let t = ([172, 16, (i >> 24) as u8, (i >> 16) as u8], 1024 + (i & 0xffff) as u16 % 60000, 80 + ((i >> 16) & 0xff) as u16);
        let t = (t.0, (i as u16), t.2);
        ci.ip.src = Some(IpAddr::V4(Ipv4Addr::from(t.0)));
        ci.port.src = Some(t.1);
        ci.port.dst = Some(t.2);
        if let Ok(k) = crate::synackcookie::generate(&ci, &key) {
            if let Some(prev) = seen.get(&k) {
                if *prev != t {
                    return Some(Collision { key, a: *prev, b: t });
                }
            }
            seen.insert(k, t);
        }
    }
    None
}

pub fn collision_check(c: &Collision, st: &mut Stats) -> Check {
    st.eval();
    let mac = [0x02, 0x10, 0x20, 0x30, 0x40, 0x50];
    let mut cfg = Cfg::plain(mac);
    cfg.key = c.key;
    let sut = Sut::new(&cfg);
    let mk = |t: &([u8; 4], u16, u16)| Flow { net: Net { cmac: [2, 0, 0, 0, 0, 1], dmac: mac, cip: IpAddr::V4(Ipv4Addr::from(t.0)), sip: IpAddr::V4(Ipv4Addr::new(10, 9, 8, 7)) }, sport: t.1, dport: t.2 };
    let (fa, fb) = (mk(&c.a), mk(&c.b));
    Sut::reset();
    let ka = learn_cookie(&sut, &fa, 1).map_err(Failure::new)?;
    let kb = learn_cookie(&sut, &fb, 1).map_err(Failure::new)?;
    if ka != kb {
        st.class("collision:tuples-no-longer-collide(skipped)");
        return Ok(());
    }
    st.class("collision:equal-cookies");
    st.nontrivial(&(c.a, c.b));
    // history: A sends an incomplete HTTP request. Probe: B's first segment finishes "a" request.
    let probe = fb.data(2, kb.wrapping_add(1), b"\r\n");
    let _ = sut.frame(&fa.data(2, ka.wrapping_add(1), b"GET / HTTP/1.1\r\n"));
    let r1 = sut.frame(&probe);
    Sut::reset();
    let r2 = sut.frame(&probe);
    st.frames(5);
    if norm(&r1) != norm(&r2) {
        return Err(Failure::keyed(
            "cookie-collision",
            format!("two distinct 4-tuples with equal SYN cookie {:#x} share a control block: flow B's segment is answered differently after flow A's traffic ({:?} / {:?}): {} vs {}", ka, c.a, c.b, r1.brief().chars().take(160).collect::<String>(), r2.brief().chars().take(160).collect::<String>()),
        ));
    }
    Ok(())
}

// ---------------------------------------------------------------------------------------
// fresh process: the reply in a process that has seen sibling traffic (and every earlier case of
// this worker) equals the reply of a responder started for this one exchange

#[derive(Clone, Debug, Serialize, Deserialize, PartialEq)]
pub struct FreshCase {
    pub scn: Scenario,
    pub sport: u16,
    pub dport: u16,
    pub req: AppReq,
    pub tcp: bool,
    pub shadow: Shadow,
}

pub fn fresh_check(c: &FreshCase, st: &mut Stats) -> Check {
    st.eval();
    Sut::reset();
    let sut = Sut::new(&c.scn.cfg);
    let net = &c.scn.net;
    let mut frames: Vec<Vec<u8>> = Vec::new();
    let mut outs: Vec<Out> = Vec::new();
    {
        let _g = ShadowGuard::set(&Some(c.shadow.clone()));
        if c.tcp {
            let flow = Flow { net: net.clone(), sport: c.sport, dport: c.dport };
            let syn = flow.syn(77);
            let o = sut.frame(&syn);
            let cookie = match &o {
                Out::Reply(r) => match decode_reply(r).ok().and_then(|d| d.tcp().map(|t| t.seq)) {
                    Some(k) => k,
                    None => return Ok(()),
                },
                _ => return Ok(()),
            };
            frames.push(syn);
            outs.push(o);
            let d = flow.data(78, cookie.wrapping_add(1), &c.req.bytes(true));
            outs.push(sut.frame(&d));
            frames.push(d);
        } else {
            let f = udp_frame(net, c.sport, c.dport, &c.req.bytes(false));
            outs.push(sut.frame(&f));
            frames.push(f);
        }
        st.frames(frames.len() as u64 + crate::vf::shadow::frames_sent());
        if crate::vf::shadow::tainted() {
            st.exclude("shadow-tuple-collision");
            return Ok(());
        }
    }
    for o in &outs {
        if let Out::Panic(p) = o {
            return Err(Failure::keyed(p.key(), format!("panic: {} {}", p.file, p.msg)));
        }
    }
    let fresh = match fresh_process(&c.scn.cfg, &frames) {
        Ok(f) => f,
        Err(e) => {
            st.class("skipped:fresh-process-could-not-be-run");
            st.set_extra("fresh_process_error", json!(e));
            return Ok(());
        }
    };
    st.class(&format!("fresh:{}:{}:{}", if c.tcp { "tcp" } else { "udp" }, c.req.kind(), if outs.last().and_then(|o| o.reply()).is_some() { "answered" } else { "silent" }));
    if outs.last().and_then(|o| o.reply()).is_some() {
        st.nontrivial(&(c.tcp, c.req.kind(), c.shadow.vary, net.is_v4(), fnv(&c.req.bytes(c.tcp)) % 4096));
        st.sample(|| json!({"transport": if c.tcp { "tcp" } else { "udp" }, "request": c.req.kind(), "shadow": format!("{:?}", c.shadow)}));
    }
    for (i, (a, b)) in outs.iter().zip(fresh.iter()).enumerate() {
        if norm(a) != norm(b) {
            vfail!(
                "frame #{} of a {} exchange ({} request) is answered differently by this process (which has seen sibling traffic {:?} and earlier cases) and by a responder started for this exchange alone.\n frame: {}\n here:  {}\n fresh: {}",
                i,
                if c.tcp { "TCP" } else { "UDP" },
                c.req.kind(),
                c.shadow,
                hex(&frames[i][..frames[i].len().min(200)]),
                a.brief().chars().take(500).collect::<String>(),
                b.brief().chars().take(500).collect::<String>()
            );
        }
    }
    Ok(())
}

impl Prop for C08 {
    fn id(&self) -> &'static str {
        "C08"
    }
    fn rule(&self) -> &'static str {
        "metamorphic over histories: 3 TCP flows (two with adjacent source ports, one differing from the first only in the destination address; data segments that acknowledge ANOTHER flow's cookie+1) each with its own byte stream (protocol requests, two requests back to back, garbage) delivered in generated chunks, interleaved in generated order with wrong-ack data segments, SYNs non-data TCP segments whose seq/ack are another flow's cookie, traffic sharing the flows' IP or MAC (ARP / NS / echo / SYN / UDP from the same IP with another MAC and vice versa), ICMP / ICMPv6 error messages quoting the responder's own SYN-ACK or UDP answer to the client (all error types and codes), answerable UDP datagrams from the flows' client with fixed ports, and unrelated noise (ARP, ICMP, ND, UDP application traffic, raw and lying-header frames, SYN floods on other ports). For EVERY position p of the history: the reply recorded at p must equal (after masking HTTP Date / SMB times) the reply to the same frame when the connection table is reset and only the accepted data segments of p's own 4-tuple that precede p are replayed. Crowds: a connection whose first segment was a complete request gets the same answer to its second segment (acknowledging the first answer or not) with 1100 / 4200 / 9000 / 66000 other connections validated in between as with none. Directed: two distinct 4-tuples with equal cookie found by a birthday search through the responder's cookie function. Non-trivial = at p another flow has accepted data and p is answered or is a data segment; distinct by case hash. Shadow traffic (vf/shadow.rs): three cases in ten process, before every frame of the case, a sibling of that frame whose result is discarded — the same frame again, or one tuple element (source / destination port, source / destination address, source MAC), one payload bit or the payload length changed; TCP conversations are shadowed whole on a sibling flow validated with its own cookie; sound by the statement of C08, cases whose own flows meet a shadow tuple are excluded and counted. Stream `fresh`: a UDP datagram or SYN + first data segment carrying a request of every protocol generator, preceded by shadow traffic, is answered by this worker process (which has seen thousands of cases) and by the same binary started for this one exchange (`mverif exec-frames`): the normalised replies must agree frame by frame — the only differential here whose two sides do not share process-wide state."
    }
    fn run(&self, ctx: &mut RunCtx) {
        let n = ctx.share(ctx.tier.n(600_000, 6_000_000));
        ctx.run_generated("isolation", n, case_strategy(), check);
        let nc = ctx.share(ctx.tier.n(24, 240));
        ctx.run_generated(
            "crowd",
            nc,
            (scenario_quiet(Fam::Any), 1024u16..30000, port(), app_req(), prop_oneof![app_req().prop_map(|a| Hex(a.bytes(true))), vec(any::<u8>(), 1..40).prop_map(Hex)], any::<bool>(), prop::sample::select(vec![1100u32, 4200, 9000, 66000]))
                .prop_map(|(scn, sport, dport, first, second, ack_advances, others)| CrowdCase { scn, sport, dport, first, second, ack_advances, others }),
            crowd_check,
        );
        let nf = ctx.share(ctx.tier.n(4_000, 60_000));
        ctx.run_generated(
            "fresh",
            nf,
            (scenario_quiet(Fam::Any), 1024u16..30000, port(), app_req(), any::<bool>(), crate::vf::shadow::shadow()).prop_map(|(scn, sport, dport, req, tcp, shadow)| FreshCase { scn, sport, dport, req, tcp, shadow }),
            fresh_check,
        );
        if ctx.worker == 0 || ctx.tier == Tier::Thorough {
            let key = [ctx.seed ^ (ctx.worker as u64) << 8, 0x5eed];
            match birthday(key, ctx.tier.n(400_000, 600_000) as u32) {
                Some(c) => {
                    let r = collision_check(&c, ctx.st);
                    ctx.run_one("collision", &c, r);
                }
                None => ctx.st.class("collision:none-found"),
            }
        }
    }
    fn replay(&self, stream: &str, case: &Value, st: &mut Stats) -> Check {
        let bad = |e: serde_json::Error| Failure::new(format!("bad case: {}", e));
        match stream {
            "collision" => collision_check(&serde_json::from_value(case.clone()).map_err(bad)?, st),
            "crowd" => crowd_check(&serde_json::from_value(case.clone()).map_err(bad)?, st),
            "fresh" => fresh_check(&serde_json::from_value(case.clone()).map_err(bad)?, st),
            _ => check(&serde_json::from_value(case.clone()).map_err(bad)?, st),
        }
    }
}
