// C13 — HTTP: complete requests get a well-formed 401, anything else gets silence.

use crate::vf::shadow::{shadow_opt, with_shadow, Shadow};
use proptest::collection::vec;
use proptest::prelude::*;
use serde::{Deserialize, Serialize};
use serde_json::{json, Value};

use crate::vf::codec::{AmbientGuard, IpTweak};
use crate::vf::dec_app::*;
use crate::vf::engine::*;
use crate::vf::gen::*;
use crate::vf::gen_app::*;
use crate::vf::props::c12::app_exchange;
use crate::vf::sut::*;
use crate::vf::util::*;

pub struct C13;

#[derive(Clone, Debug, Serialize, Deserialize, PartialEq)]
pub enum Fault {
    None,
    /// method token that is none of the nine and completes no signature
    UnknownMethod(String),
    /// one byte of "HTTP/" replaced
    BadLiteral(u8, u8),
    NonDigitVersion { minor: bool, ch: u8 },
    MissingVersion,
    HeaderWithoutColon(String),
    /// a colon-less line (optionally starting with SP / TAB) after `pos` well-formed header lines
    ColonlessLineAt { pos: u16, lead: u8, text: String, crlf: bool },
    NoEmptyLine,
    Truncated(u16),
    /// a CR inside a header field name (behind its first byte, before the colon): the line ends
    /// without a colon as far as a CR means anything, and a field name is a token anyway
    CrInHeaderName { hdr: u16, pos: u16 },
}

#[derive(Clone, Debug, Serialize, Deserialize, PartialEq)]
pub struct Case {
    pub scn: Scenario,
    pub sport: u16,
    pub dport: u16,
    pub tcp: bool,
    pub req: HttpReq,
    pub fault: Fault,
    /// over TCP: deliver the request in two segments, cut at this position (monotone-mapped to
    /// [signature length, length))
    #[serde(default)]
    pub cut: Option<u16>,
    /// IP / TCP header fields the responder is not documented to look at (TOS, id, flag bits,
    /// TTL, TCP window, urgent pointer), applied to every frame of the case
    #[serde(default)]
    pub tweak: Option<IpTweak>,
    /// sibling traffic sent before every frame of the case (vf/shadow.rs)
    #[serde(default)]
    pub shadow: Option<Shadow>,
}

fn fault() -> impl Strategy<Value = Fault> {
    prop_oneof![
        8 => Just(Fault::None),
        2 => prop_oneof![
            prop::sample::select(vec!["FOO", "BREW", "GETS", "GE", "POSTS", "PUTT", "SEARCH", "PROPFIND", "get", "Post", "LINK", "X"]).prop_map(|s| s.to_string()),
            "[A-Z]{2,8}".prop_filter("not a supported verb", |s| !HTTP_VERBS.contains(&s.as_str())),
        ]
        .prop_map(Fault::UnknownMethod),
        1 => (0u8..5, prop::sample::select(vec![b'X', b'h', b' ', b'1', b'/', 0u8, 0xffu8])).prop_map(|(i, b)| Fault::BadLiteral(i, b)),
        1 => (any::<bool>(), prop::sample::select(vec![b'x', b'a', b' ', b'-', b'/', 0xb2u8])).prop_map(|(minor, ch)| Fault::NonDigitVersion { minor, ch }),
        1 => Just(Fault::MissingVersion),
        1 => "[A-Za-z][A-Za-z0-9 -]{0,12}".prop_map(Fault::HeaderWithoutColon),
        2 => (any::<u16>(), prop::sample::select(vec![0u8, b' ', b'\t']), "[A-Za-z0-9][A-Za-z0-9 ,;=-]{0,12}", any::<bool>()).prop_map(|(pos, lead, text, crlf)| Fault::ColonlessLineAt { pos, lead, text, crlf }),
        2 => Just(Fault::NoEmptyLine),
        3 => any::<u16>().prop_map(Fault::Truncated),
        2 => (any::<u16>(), any::<u16>()).prop_map(|(hdr, pos)| Fault::CrInHeaderName { hdr, pos }),
    ]
}

pub fn case_strategy() -> impl Strategy<Value = Case> {
    (case_strategy0(), shadow_opt()).prop_map(|(mut c, sh)| {
        c.shadow = sh;
        c
    })
}

fn case_strategy0() -> impl Strategy<Value = Case> {
    (scenario(Fam::Any), port(), port(), any::<bool>(), http_req(), fault(), prop::option::weighted(0.3, any::<u16>()), prop::option::weighted(0.3, crate::vf::props::c03::ip_tcp_tweak())).prop_map(|(mut scn, sport, dport, tcp, req, fault, cut, tweak)| {
        scn.cfg.logger = LoggerKind::None;
        Case { shadow: None, scn, sport, dport, tcp, req, fault, cut, tweak }
    })
}

/// request bytes with the fault applied; None = the fault does not apply to this request
pub fn faulty_bytes(req: &HttpReq, f: &Fault) -> Option<Vec<u8>> {
    let (good, end) = req.bytes_and_end();
    match f {
        Fault::None => Some(good),
        Fault::UnknownMethod(m) => {
            let rl = req.request_line();
            let sp = rl.iter().position(|b| *b == b' ')?;
            let mut v = m.as_bytes().to_vec();
            v.extend_from_slice(&rl[sp..]);
            v.extend_from_slice(&good[rl.len()..]);
            Some(v)
        }
        Fault::BadLiteral(i, b) => {
            let rl = req.request_line();
            // position of "HTTP/" = after "VERB /target "
            let pos = HTTP_VERBS[req.verb].len() + 2 + req.target.len() + 1 + *i as usize;
            let mut v = good.clone();
            if v[pos] == *b {
                return None;
            }
            let _ = rl;
            v[pos] = *b;
            Some(v)
        }
        Fault::NonDigitVersion { minor, ch } => {
            let pos = HTTP_VERBS[req.verb].len() + 2 + req.target.len() + 1 + 5 + if *minor { req.major.len() + 1 } else { 0 };
            let mut v = good.clone();
            v[pos] = *ch;
            Some(v)
        }
        Fault::MissingVersion => {
            let mut v = HTTP_VERBS[req.verb].as_bytes().to_vec();
            v.extend_from_slice(b" /");
            v.extend_from_slice(&req.target);
            v.extend_from_slice(&good[req.request_line().len()..]);
            Some(v)
        }
        Fault::HeaderWithoutColon(h) => {
            // insert a colon-less line right after the request line
            let rl_end = req.request_line().len() + req.eol(0).len();
            let mut v = good[..rl_end].to_vec();
            v.extend_from_slice(h.as_bytes());
            v.extend_from_slice(b"\r\n");
            v.extend_from_slice(&good[rl_end..]);
            Some(v)
        }
        Fault::ColonlessLineAt { pos, lead, text, crlf } => {
            // offset after `k` header lines
            let k = pick(*pos, req.headers.len() + 1);
            let mut off = req.request_line().len() + req.eol(0).len();
            for (i, (n, v)) in req.headers.iter().enumerate().take(k) {
                off += n.len() + 1 + v.len() + req.eol(1 + i).len();
            }
            let mut v = good[..off].to_vec();
            if *lead != 0 {
                v.push(*lead);
            }
            v.extend_from_slice(text.as_bytes());
            v.extend_from_slice(if *crlf { b"\r\n" } else { b"\n" });
            v.extend_from_slice(&good[off..]);
            Some(v)
        }
        Fault::CrInHeaderName { hdr, pos } => {
            if req.headers.is_empty() {
                return None;
            }
            let k = pick(*hdr, req.headers.len());
            let mut off = req.request_line().len() + req.eol(0).len();
            for (i, (n, v)) in req.headers.iter().enumerate().take(k) {
                off += n.len() + 1 + v.len() + req.eol(1 + i).len();
            }
            let nl = req.headers[k].0.len();
            if nl == 0 {
                return None;
            }
            let at = off + 1 + pick(*pos, nl);
            let mut v = good[..at].to_vec();
            v.push(b'\r');
            v.extend_from_slice(&good[at..]);
            Some(v)
        }
        Fault::NoEmptyLine => {
            let last_eol = req.eol(1 + req.headers.len()).len();
            Some(good[..end - last_eol].to_vec())
        }
        Fault::Truncated(p) => {
            let k = pick(*p, end); // strictly shorter than the complete request
            Some(good[..k].to_vec())
        }
    }
}

pub fn check(c: &Case, st: &mut Stats) -> Check {
    with_shadow(&c.shadow, st, |st| check0(c, st))
}

fn check0(c: &Case, st: &mut Stats) -> Check {
    Sut::reset();
    st.eval();
    let _ambient = AmbientGuard::set(&c.tweak);
    let sut = Sut::new(&c.scn.cfg);
    let bytes = match faulty_bytes(&c.req, &c.fault) {
        Some(b) => b,
        None => return Ok(()),
    };
    let positive = c.fault == Fault::None;
    // faulty requests must not accidentally complete another protocol's signature
    if !positive {
        let r = crate::vf::sig::ref_identify(&bytes, !c.tcp);
        if r.protos.iter().any(|p| *p != crate::vf::sig::Proto::Http) {
            st.exclude("fault-completes-another-signature");
            return Ok(());
        }
    }
    st.frames(if c.tcp { 2 } else { 1 });
    let sig_len = HTTP_VERBS[c.req.verb].len() + 2;
    let two = match c.cut {
        Some(k) if c.tcp && bytes.len() > sig_len + 1 => Some(sig_len + pick(k, bytes.len() - sig_len - 1) + 1),
        _ => None,
    };
    let app = match two {
        None => app_exchange(&sut, &c.scn.net, c.tcp, c.sport, c.dport, &bytes)?,
        Some(k) => {
            use crate::vf::session::*;
            st.class("delivered-in-two-segments");
            let flow = Flow { net: c.scn.net.clone(), sport: c.sport, dport: c.dport };
            let rs = deliver(&sut, &flow, 31337, &bytes, &[k, bytes.len() - k]).map_err(Failure::new)?;
            let mut got: Option<Vec<u8>> = None;
            for r in &rs {
                match r {
                    SegReply::Data(p) if got.is_none() => got = Some(p.clone()),
                    SegReply::Other(o) if o.starts_with("panic") => return Err(Failure::keyed("panic", o.clone())),
                    _ => {}
                }
            }
            got
        }
    };
    let tr = if c.tcp { "tcp" } else { "udp" };
    let fk = match &c.fault {
        Fault::None => "well-formed",
        Fault::UnknownMethod(_) => "fault:unknown-method",
        Fault::BadLiteral(..) => "fault:bad-HTTP/-literal",
        Fault::NonDigitVersion { .. } => "fault:non-digit-version",
        Fault::MissingVersion => "fault:missing-version",
        Fault::HeaderWithoutColon(_) => "fault:header-without-colon",
        Fault::ColonlessLineAt { lead, .. } => if *lead == 0 { "fault:colon-less-line-among-headers" } else { "fault:colon-less-line-starting-with-blank" },
        Fault::NoEmptyLine => "fault:no-empty-line",
        Fault::Truncated(_) => "fault:truncated",
        Fault::CrInHeaderName { .. } => "fault:cr-inside-header-name",
    };
    st.class(&format!("{}:{}", fk, tr));
    if positive {
        st.class(&format!("verb:{}:headers={}:level>={}", HTTP_VERBS[c.req.verb], c.req.headers.len().min(3), if c.scn.cfg.level >= 2 { "warn" } else { "off" }));
        let eols: Vec<bool> = (0..2 + c.req.headers.len()).map(|i| c.req.crlf.get(i).cloned().unwrap_or(true)).collect();
        st.class(if eols.iter().all(|x| *x) { "eol:crlf" } else if eols.iter().all(|x| !*x) { "eol:lf" } else { "eol:mixed" });
    }
    st.nontrivial_hash(fnv(&bytes) ^ c.tcp as u64);
    let show = || format!("{:?}", String::from_utf8_lossy(&bytes[..bytes.len().min(200)]));
    if positive {
        let a = match app {
            Some(a) => a,
            None => vfail!("complete HTTP request not answered over {}: {}", tr, show()),
        };
        st.sample(|| json!({"request": String::from_utf8_lossy(&bytes[..bytes.len().min(120)]), "transport": tr, "response_head": String::from_utf8_lossy(&a[..a.len().min(60)])}));
        let r = parse_http_response(&a).map_err(|e| Failure::new(format!("response does not parse: {} ({:?})", e, String::from_utf8_lossy(&a[..a.len().min(200)]))))?;
        vensure!(r.status_line.starts_with("HTTP/1.1 401"), "status line {:?}", r.status_line);
        vensure!(r.header("WWW-Authenticate").map(|v| !v.is_empty()).unwrap_or(false), "no WWW-Authenticate challenge in {:?}", r.headers);
        let cl: usize = match r.header("Content-Length").and_then(|v| v.parse().ok()) {
            Some(n) => n,
            None => vfail!("no parseable Content-Length in {:?}", r.headers),
        };
        vensure!(cl == r.body.len(), "Content-Length says {} but {} body bytes were sent", cl, r.body.len());
        Ok(())
    } else {
        match app {
            None => Ok(()),
            Some(a) => vfail!("{} request answered over {}: {} -> {:?}", fk, tr, show(), String::from_utf8_lossy(&a[..a.len().min(80)])),
        }
    }
}

// ---------------------------------------------------------------------------------------
// keep-alive: the 401 announces "Connection: keep-alive"; further requests on the connection
// are requests like any other

#[derive(Clone, Debug, Serialize, Deserialize, PartialEq)]
pub struct KeepAlive {
    pub scn: Scenario,
    pub sport: u16,
    pub dport: u16,
    /// complete valid requests, one per segment
    pub reqs: Vec<HttpReq>,
    /// then optionally one faulty request (what follows a malformed request is not judged)
    pub last: Option<(HttpReq, Fault)>,
}

pub fn keepalive_strategy() -> impl Strategy<Value = KeepAlive> {
    (scenario_levels(Fam::Any), port(), port(), vec(http_req(), 1..=3), prop::option::weighted(0.7, (http_req(), fault()))).prop_map(|(scn, sport, dport, mut reqs, last)| {
        for r in reqs.iter_mut() {
            r.tail = Hex(vec![]);
        }
        KeepAlive { scn, sport, dport, reqs, last }
    })
}

pub fn keepalive_check(c: &KeepAlive, st: &mut Stats) -> Check {
    use crate::vf::session::*;
    Sut::reset();
    st.eval();
    let sut = Sut::new(&c.scn.cfg);
    let mut stream = Vec::new();
    let mut lens = Vec::new();
    let mut expect: Vec<bool> = Vec::new();
    for r in &c.reqs {
        let b = r.bytes();
        lens.push(b.len());
        stream.extend_from_slice(&b);
        expect.push(true);
    }
    let mut fk = "none";
    if let Some((r, f)) = &c.last {
        if let Some(b) = faulty_bytes(r, f) {
            if !b.is_empty() {
                let positive = *f == Fault::None;
                if !positive {
                    let id = crate::vf::sig::ref_identify(&b, false);
                    if id.protos.iter().any(|p| *p != crate::vf::sig::Proto::Http) {
                        st.exclude("fault-completes-another-signature");
                        return Ok(());
                    }
                    fk = "faulty";
                } else {
                    fk = "well-formed";
                }
                lens.push(b.len());
                stream.extend_from_slice(&b);
                expect.push(positive);
            }
        }
    }
    if lens.len() < 2 {
        st.class("trivial:single-request");
        return Ok(());
    }
    let flow = Flow { net: c.scn.net.clone(), sport: c.sport, dport: c.dport };
    st.frames(1 + lens.len() as u64);
    let replies = deliver(&sut, &flow, 808, &stream, &lens).map_err(Failure::new)?;
    st.class(&format!("keep-alive:{}-requests:last-{}", lens.len(), fk));
    st.nontrivial_hash(fnv(&stream) ^ 0x4b41);
    let mut off = 0usize;
    for (i, rp) in replies.iter().enumerate() {
        let seg = &stream[off..off + lens[i]];
        off += lens[i];
        let show = || format!("{:?}", String::from_utf8_lossy(&seg[..seg.len().min(160)]));
        match (rp, expect[i]) {
            (SegReply::Data(a), true) => {
                let r = parse_http_response(a).map_err(|e| Failure::new(format!("request #{} on the connection: response does not parse: {} ({:?})", i, e, String::from_utf8_lossy(&a[..a.len().min(200)]))))?;
                vensure!(r.status_line.starts_with("HTTP/1.1 401"), "request #{} on the connection: status line {:?}", i, r.status_line);
                vensure!(r.header("WWW-Authenticate").map(|v| !v.is_empty()).unwrap_or(false), "request #{}: no WWW-Authenticate challenge", i);
                let cl: usize = r.header("Content-Length").and_then(|v| v.parse().ok()).unwrap_or(usize::MAX);
                vensure!(cl == r.body.len(), "request #{}: Content-Length says {} but {} body bytes were sent", i, cl, r.body.len());
            }
            (SegReply::Data(a), false) => {
                if a.starts_with(b"HTTP/") {
                    vfail!("request #{} on a keep-alive connection is faulty ({:?}) but was answered: {} -> {:?}", i, c.last.as_ref().map(|l| &l.1), show(), String::from_utf8_lossy(&a[..a.len().min(60)]));
                }
            }
            (SegReply::Ack, true) | (SegReply::Silence, true) => vfail!("complete HTTP request #{} on a keep-alive connection not answered: {}", i, show()),
            (SegReply::Other(o), _) => {
                if o.starts_with("panic") {
                    return Err(Failure::keyed("panic", o.clone()));
                }
            }
            _ => {}
        }
    }
    Ok(())
}

impl Prop for C13 {
    fn id(&self) -> &'static str {
        "C13"
    }
    fn rule(&self) -> &'static str {
        "cases = request grammar (9 methods; target '/' + bytes other than SP/CR/LF incl. non-UTF-8 and NUL, 0..60 bytes; HTTP/d+.d+; 0..5 'name:value' header lines with arbitrary value bytes; CRLF or bare LF chosen per line; optional trailing bytes) x transport (UDP datagram / one segment, or two segments cut anywhere behind the signature, on a handshaken TCP flow) x both IP versions x random ports x log level Off..Trace (the 401 path logs verb and target at Warn), and single-fault corruptions: unknown method (not completing any signature), byte of 'HTTP/' replaced, non-digit version, missing version, header line without colon, terminating empty line removed, truncation at every position before the end, a CR inside a header field name. Keep-alive: 1..3 complete requests, one per segment of ONE connection, optionally followed by one more request that is well-formed or carries one of the faults: every complete request is answered as above, the faulty one is not (nothing is judged after a faulty request). Oracle: independent LF-tolerant response parser: status line HTTP/1.1 401, WWW-Authenticate present, Content-Length = number of body bytes; faulty requests get no application reply (UDP silence, TCP bare ACK). Non-trivial = every case (decides one request); distinct by hash of (bytes, transport). Shadow traffic (vf/shadow.rs): three cases in ten process, before every frame of the case, a sibling of that frame whose result is discarded — the same frame again, or one tuple element (source / destination port, source / destination address, source MAC), one payload bit or the payload length changed; TCP conversations are shadowed whole on a sibling flow validated with its own cookie; sound by the statement of C08, cases whose own flows meet a shadow tuple are excluded and counted."
    }
    fn run(&self, ctx: &mut RunCtx) {
        let n = ctx.share(ctx.tier.n(2_000_000, 16_000_000));
        ctx.run_generated("http", n, case_strategy(), check);
        let m = ctx.share(ctx.tier.n(600_000, 5_000_000));
        ctx.run_generated("keep-alive", m, keepalive_strategy(), keepalive_check);
    }
    fn replay(&self, stream: &str, case: &Value, st: &mut Stats) -> Check {
        let bad = |e: serde_json::Error| Failure::new(format!("bad case: {}", e));
        match stream {
            "keep-alive" => keepalive_check(&serde_json::from_value(case.clone()).map_err(bad)?, st),
            _ => check(&serde_json::from_value(case.clone()).map_err(bad)?, st),
        }
    }
}
