// C11 — stream parsing is independent of TCP segmentation (HTTP, ONC-RPC over TCP).

use proptest::collection::vec;
use proptest::prelude::*;
use serde::{Deserialize, Serialize};
use serde_json::{json, Value};

use crate::vf::codec::*;
use crate::vf::engine::*;
use crate::vf::gen::*;
use crate::vf::gen_app::*;
use crate::vf::normalise::*;
use crate::vf::session::*;
use crate::vf::sut::*;
use crate::vf::traffic::{apply_bmuts, bmut};
use crate::vf::util::*;

pub struct C11;

#[derive(Clone, Debug, Serialize, Deserialize, PartialEq)]
pub enum StreamSpec {
    Http(HttpReq),
    Rpc(RpcCall),
    /// a complete call record followed by further bytes of the connection (the start of a
    /// pipelined next record, or a record mark that announced less than was sent)
    RpcThen(RpcCall, Hex),
    /// a stream that starts with an HTTP signature (`sig_len` bytes) and goes on with a request
    /// that was damaged: a junk line inserted at a line boundary, bytes set / inserted / deleted
    /// behind the signature. No verdict is expected, only agreement of all segmentations.
    Raw { bytes: Hex, sig_len: u16 },
    /// an ONC-RPC call record cut into two or three record fragments (only the last record mark
    /// carries the last-fragment bit): again no verdict is expected, only agreement
    RpcFragments { bytes: Hex },
}

#[derive(Clone, Debug, Serialize, Deserialize, PartialEq)]
pub struct Case {
    pub scn: Scenario,
    pub sport: u16,
    pub dport: u16,
    pub spec: StreamSpec,
    /// random k-cut compositions: each a list of cut positions (monotone mapped)
    pub kcuts: Vec<Vec<u16>>,
    /// long stream: the 1- and 2-cut segmentations are not enumerated but taken from a boundary
    /// set (signature end, request end, powers of two +-1, typical segment sizes)
    #[serde(default)]
    pub sampled: bool,
}

/// streams of 300..12000 bytes (up to 4000 bytes one unsplit segment still fits the 4096-byte
/// capture buffer; beyond that the coarsest delivery is in 4000-byte segments)
fn long_spec() -> impl Strategy<Value = StreamSpec> {
    let len = || prop_oneof![3 => 200usize..3800, 1 => 3800usize..9000];
    prop_oneof![
        // a long body behind the empty line (bytes after the request)
        (small_http(), len(), 100usize..3000, any::<u8>()).prop_map(|(mut h, n, body, c)| {
            h.target = Hex(vec![b'a' + c % 26; n]);
            h.tail = Hex(vec![b'b'; body]);
            StreamSpec::Http(h)
        }),
        (small_http(), len(), any::<u8>(), vec((any::<u16>(), any::<u8>()), 0..6)).prop_map(|(mut h, n, c, sprinkle)| {
            let mut t = vec![b'a' + c % 26; n];
            for (p, b) in sprinkle {
                let k = pick(p, n);
                t[k] = if b == b' ' || b == b'\r' || b == b'\n' { b'/' } else { b };
            }
            h.target = Hex(t);
            StreamSpec::Http(h)
        }),
        (small_http(), len(), any::<u8>(), 0usize..3).prop_map(|(mut h, n, c, at)| {
            let v = vec![b'A' + c % 26; n];
            let mut val = b" ".to_vec();
            val.extend_from_slice(&v);
            let k = at.min(h.headers.len());
            h.headers.insert(k, ("X-Long".to_string(), Hex(val)));
            StreamSpec::Http(h)
        }),
        (rpc_call(), prop_oneof![3 => 100usize..3000, 1 => 3000usize..9000], any::<u8>()).prop_map(|(mut r, n, c)| {
            r.args = Hex((0..n).map(|i| c.wrapping_add(i as u8)).collect());
            StreamSpec::Rpc(r)
        }),
    ]
}

pub fn long_case_strategy() -> impl Strategy<Value = Case> {
    (scenario_quiet(Fam::Any), port(), port(), long_spec(), vec(vec(any::<u16>(), 1..6), 12)).prop_map(|(scn, sport, dport, spec, kcuts)| Case { scn, sport, dport, spec, kcuts, sampled: true })
}

fn small_http() -> impl Strategy<Value = HttpReq> {
    (http_req(), any::<u8>()).prop_map(|(mut h, ws)| {
        h.target.0.truncate(12);
        h.headers.truncate(3);
        for (i, (n, v)) in h.headers.iter_mut().enumerate() {
            n.truncate(16);
            v.0.truncate(12);
            // whitespace between field name and colon (obsolete syntax some clients still send): C11
            // only asks that all segmentations agree, whatever the verdict on such a line is
            if (ws >> (2 * i)) & 3 == 1 {
                n.push(' ');
            } else if (ws >> (2 * i)) & 3 == 2 && ws & 0x80 != 0 {
                n.push('\t');
            }
        }
        h.tail.0.truncate(6);
        h
    })
}

fn junk_line() -> impl Strategy<Value = Vec<u8>> {
    prop_oneof![
        6 => prop::sample::select(vec![&b"X\rY: a"[..], b"nocolon", b"a b: c", b": v", b"\x00k: v", b"k\x80: v", b"X\r", b"\r", b" folded: v", b"k: v\rw", b"k:", b"GET / HTTP/1.1", b"HTTP/1.1 200 OK", b"k : v", b"k\t: v", b"\n", b" continued", b"\tcontinued value", b" ", b"\t", b" a: b"]).prop_map(|b| b.to_vec()),
        1 => vec(any::<u8>(), 1..10),
    ]
}

/// a small request, damaged behind the signature
fn small_http_damaged() -> impl Strategy<Value = StreamSpec> {
    (small_http(), prop::option::weighted(0.8, (junk_line(), any::<u16>(), 0u8..3)), vec(bmut(), 0..3)).prop_map(|(h, junk, muts)| {
        let sig = HTTP_VERBS[h.verb].len() + 2;
        let (mut b, end) = h.bytes_and_end();
        if let Some((j, at, eol)) = junk {
            // line boundaries of the head (offsets just behind a LF, the end of the head included)
            let bounds: Vec<usize> = (sig..end).filter(|i| b[*i] == b'\n').map(|i| i + 1).collect();
            if !bounds.is_empty() {
                let k = bounds[pick(at, bounds.len())];
                let mut ins = j;
                match eol {
                    0 => {}
                    1 => ins.extend_from_slice(b"\r\n"),
                    _ => ins.push(b'\n'),
                }
                let tail = b.split_off(k);
                b.extend_from_slice(&ins);
                b.extend_from_slice(&tail);
            }
        }
        if !muts.is_empty() && b.len() > sig {
            let tail = b.split_off(sig);
            b.extend_from_slice(&apply_bmuts(tail, &muts));
        }
        if b.len() < sig + 2 {
            b.extend_from_slice(b"\r\n\r\n");
        }
        StreamSpec::Raw { bytes: Hex(b), sig_len: sig as u16 }
    })
}

fn rpc_fragments() -> impl Strategy<Value = StreamSpec> {
    (small_rpc(), any::<u16>(), prop::option::weighted(0.5, any::<u16>()), vec(any::<u8>(), 0..8)).prop_map(|(r, a, b, more)| {
        let rec = r.record();
        let mut body = rec[4..].to_vec();
        body.extend_from_slice(&more);
        let n = body.len();
        let mut cuts = vec![1 + pick(a, n.saturating_sub(1).max(1))];
        if let Some(b) = b {
            cuts.push(1 + pick(b, n.saturating_sub(1).max(1)));
        }
        cuts.retain(|c| *c < n);
        cuts.sort();
        cuts.dedup();
        let mut v = Vec::new();
        let mut prev = 0;
        for c in cuts.iter().chain(std::iter::once(&n)) {
            let frag = &body[prev..*c];
            let mut mark = frag.len() as u32;
            if *c == n {
                mark |= 0x8000_0000;
            }
            v.extend_from_slice(&mark.to_be_bytes());
            v.extend_from_slice(frag);
            prev = *c;
        }
        StreamSpec::RpcFragments { bytes: Hex(v) }
    })
}

fn small_rpc() -> impl Strategy<Value = RpcCall> {
    rpc_call().prop_map(|mut r| {
        if r.cred.len() < 255 {
            r.cred.0.truncate(24);
        }
        r.verf.0.truncate(16);
        r.args.0.truncate(12);
        r
    })
}

pub fn case_strategy(big: bool) -> impl Strategy<Value = Case> {
    let spec = if big {
        prop_oneof![http_req().prop_map(StreamSpec::Http), rpc_call().prop_map(StreamSpec::Rpc)].boxed()
    } else {
        prop_oneof![
            4 => small_http().prop_map(StreamSpec::Http),
            3 => small_http_damaged(),
            3 => small_rpc().prop_map(StreamSpec::Rpc),
            1 => rpc_fragments(),
            1 => (small_rpc(), prop_oneof![small_rpc().prop_map(|r| { let mut v = r.record(); v.truncate(40); Hex(v) }), vec(any::<u8>(), 1..12).prop_map(Hex)]).prop_map(|(r, more)| StreamSpec::RpcThen(r, more)),
        ].boxed()
    };
    (scenario_quiet(Fam::Any), port(), port(), spec, vec(vec(any::<u16>(), 3..10), 24)).prop_map(move |(scn, sport, dport, spec, kcuts)| {
        // exhaustive 2-cut enumeration is quadratic: streams beyond 160 bytes (credentials of 255+ bytes)
        // are cut over the boundary set (which holds every offset of the first 64 bytes) instead
        let n = match &spec { StreamSpec::Http(h) => h.bytes().len(), StreamSpec::Rpc(r) => r.record().len(), StreamSpec::RpcThen(r, m) => r.record().len() + m.len(), StreamSpec::Raw { bytes, .. } => bytes.len(), StreamSpec::RpcFragments { bytes } => bytes.len() };
        Case { scn, sport, dport, spec, kcuts, sampled: !big && n > 160 }
    })
}

struct Runner<'a> {
    sut: &'a Sut,
    flow: Flow,
    cookie: u32,
    frames: u64,
}

impl<'a> Runner<'a> {
    /// deliver `s` cut at `cuts` (sorted, strictly inside 1..n); returns per-segment (end offset, reply)
    fn run(&mut self, s: &[u8], cuts: &[usize]) -> Result<Vec<(usize, SegReply)>, Failure> {
        Sut::reset();
        let mut out = Vec::new();
        let mut prev = 0usize;
        let mut seq = 1000u32;
        let mut bounds: Vec<usize> = cuts.to_vec();
        bounds.push(s.len());
        for e in bounds {
            let seg = &s[prev..e];
            let o = self.sut.frame(&self.flow.data(seq, self.cookie.wrapping_add(1), seg));
            self.frames += 1;
            if let Out::Panic(p) = &o {
                return Err(Failure::keyed(p.key(), format!("panic: {} {}", p.file, p.msg)));
            }
            out.push((e, classify_seg_reply(&o)));
            seq = seq.wrapping_add(seg.len() as u32);
            prev = e;
        }
        Ok(out)
    }
}

fn first_data(v: &[(usize, SegReply)]) -> Option<(usize, Vec<u8>)> {
    for (e, r) in v {
        if let SegReply::Data(p) = r {
            return Some((*e, normalise_app(p)));
        }
    }
    None
}

pub fn check(c: &Case, st: &mut Stats) -> Check {
    st.eval();
    let sut = Sut::new(&c.scn.cfg);
    let flow = Flow { net: c.scn.net.clone(), sport: c.sport, dport: c.dport };
    Sut::reset();
    let cookie = learn_cookie(&sut, &flow, 999).map_err(Failure::new)?;
    let (s, sig_len, req_end, valid_class, what) = match &c.spec {
        StreamSpec::Http(h) => {
            let (b, e) = h.bytes_and_end();
            (b, HTTP_VERBS[h.verb].len() + 2, e, true, "http")
        }
        StreamSpec::Rpc(r) => {
            let (b, e) = r.record_and_end();
            (b, 28, e, r.aligned(), "rpc")
        }
        StreamSpec::RpcThen(r, more) => {
            let (mut b, e) = r.record_and_end();
            b.extend_from_slice(more);
            (b, 28, e, r.aligned(), "rpc+more")
        }
        StreamSpec::RpcFragments { bytes } => (bytes.0.clone(), 28usize.min(bytes.len().saturating_sub(1)).max(1), bytes.len(), false, "rpc-fragments"),
        StreamSpec::Raw { bytes, sig_len } => (bytes.0.clone(), (*sig_len as usize).min(bytes.len().saturating_sub(1)).max(1), bytes.len(), false, "http-damaged"),
    };
    let n = s.len();
    // the precondition of the property: the stream is identified as HTTP / RPC-over-TCP. Streams
    // inside a listed matcher divergence (C10) are excluded and counted.
    match super::c10::divergence(&s, false) {
        super::c10::Divergence::None => {}
        super::c10::Divergence::Known(k) => {
            st.exclude(k);
            return Ok(());
        }
        super::c10::Divergence::Unlisted(m) => vfail!("stream {}: {}", hex(&s[..n.min(64)]), m),
    }
    let mut r = Runner { sut: &sut, flow, cookie, frames: 1 };
    // no segment longer than 4000 bytes (the capture buffer holds 4096-byte frames): streams longer
    // than that are always cut at the multiples of 4000 as well
    let base_cuts: Vec<usize> = (1..).map(|k| k * 4000).take_while(|x| *x < n).collect();
    if !base_cuts.is_empty() {
        st.class("stream-longer-than-one-frame");
    }
    // reference deliveries
    let unsplit = r.run(&s, &base_cuts)?;
    let finest_cuts: Vec<usize> = (sig_len..n).collect();
    let finest = r.run(&s, &finest_cuts)?;
    let t_fin = first_data(&finest);
    let t_uns = first_data(&unsplit);
    let descr = || format!("{} stream {} (signature {} bytes, request complete at {}, length {})", what, hex(&s[..n.min(200)]), sig_len, req_end, n);
    match (&t_fin, &t_uns) {
        (None, None) => {}
        (Some((_, a)), Some((_, b))) => vensure!(a == b, "unsplit delivery is answered with different content than the finest delivery: {}", descr()),
        (Some((t, _)), None) => vfail!("finest delivery (signature, then byte by byte) is answered at offset {} but the unsplit delivery is not: {}", t, descr()),
        (None, Some(_)) => vfail!("unsplit delivery is answered but the finest delivery (signature, then byte by byte) never is: {}", descr()),
    }
    if valid_class {
        match &t_fin {
            None => {
                // a record mark that announces more than the stream holds: the record is not complete
                let rec_end = if what.starts_with("rpc") && n >= 4 { 4 + (u32::from_be_bytes([s[0], s[1], s[2], s[3]]) & 0x7fff_ffff) as usize } else { 0 };
                if rec_end > n {
                    st.class("rpc:record-mark-announces-more-than-the-stream(not demanded)");
                } else {
                    vfail!("complete valid request never answered: {}", descr())
                }
            }
            Some((t, _)) => {
                if *t < req_end {
                    return Err(Failure::new(format!("reply triggered at stream offset {} before the request is complete (offset {}): {}", t, req_end, descr())));
                }
                // ONC-RPC: "complete" is the end of the call header (verifier) or, just as well, the
                // end of the record that the record mark announces (the arguments belong to the call)
                let rec_end = if what.starts_with("rpc") && n >= 4 { 4 + (u32::from_be_bytes([s[0], s[1], s[2], s[3]]) & 0x7fff_ffff) as usize } else { req_end };
                vensure!(*t == req_end || (*t == rec_end && rec_end > req_end), "reply triggered at stream offset {} but the request is complete at offset {}{}: {}", t, req_end, if rec_end > req_end { format!(" (its record at {})", rec_end) } else { String::new() }, descr());
            }
        }
    } else if let Some((t, _)) = &t_fin {
        st.class(if what == "http-damaged" { "http-damaged:answered-all-the-same" } else if what == "rpc-fragments" { "rpc-fragments:answered" } else { "rpc:unaligned-opaque(tracked separately)" });
        let _ = t;
    }
    let t_inf = t_fin.is_none();
    let (t, rpay) = t_fin.clone().unwrap_or((usize::MAX, vec![]));
    st.class(&format!("{}:{}", what, if t_inf { "never-answered" } else { "answered" }));
    // every other segmentation
    let mut checked = 0u64;
    let mut inside = 0u64;
    let mut judge_seg = |cuts: &[usize], r: &mut Runner, st: &mut Stats| -> Check {
        let merged: Vec<usize>;
        let cuts: &[usize] = if base_cuts.is_empty() {
            cuts
        } else {
            let mut m = cuts.to_vec();
            m.extend_from_slice(&base_cuts);
            m.sort();
            m.dedup();
            merged = m;
            &merged
        };
        let v = r.run(&s, cuts)?;
        let first_cut = cuts.first().cloned().unwrap_or(n);
        let res: Check = (|| {
            let mut triggered = false;
            for (e, rep) in &v {
                if triggered {
                    break; // nothing is asserted after the trigger (the property speaks of the first request)
                }
                if *e < t || t_inf {
                    match rep {
                        SegReply::Ack => {}
                        other => vfail!("segmentation {:?}: segment ending at offset {} (before the trigger offset {}) got {:?} instead of a bare ACK: {}", cuts, e, if t_inf { -1 } else { t as i64 }, short(other), descr()),
                    }
                } else {
                    match rep {
                        SegReply::Data(p) => {
                            vensure!(normalise_app(p) == rpay, "segmentation {:?}: reply content differs from the reference delivery's: {}", cuts, descr());
                            triggered = true;
                        }
                        other => vfail!("segmentation {:?}: the segment ending at offset {} completes the request (trigger offset {}) but got {:?}: {}", cuts, e, t, short(other), descr()),
                    }
                }
            }
            Ok(())
        })();
        match res {
            Ok(()) => Ok(()),
            Err(f) if first_cut > 0 && first_cut < sig_len => Err(Failure::keyed("cut-inside-signature", f.msg)),
            Err(f) => Err(f),
        }
    };
    // single and double cuts: all of them, or (long streams) all over a boundary set
    let ones: Vec<usize> = if c.sampled {
        let mut b: Vec<usize> = vec![sig_len, sig_len + 1, req_end.saturating_sub(2), req_end.saturating_sub(1), req_end, req_end + 1, n - 1];
        b.extend(1..=64usize);
        for k in 6..=13 {
            let p = 1usize << k;
            b.extend_from_slice(&[p - 1, p, p + 1]);
        }
        for m in [536usize, 1220, 1448, 1460, 3000] {
            b.push(m);
        }
        for kc in &c.kcuts {
            b.push(1 + pick(kc[0], n.saturating_sub(1).max(1)));
        }
        b.retain(|x| *x >= 1 && *x < n);
        b.sort();
        b.dedup();
        st.class("long-stream(sampled cuts)");
        b
    } else {
        (1..n).collect()
    };
    for &a in &ones {
        let res = judge_seg(&[a], &mut r, st);
        checked += 1;
        if a < sig_len {
            inside += 1;
        }
        st.judge(res)?;
    }
    for (i, &a) in ones.iter().enumerate() {
        for &b in &ones[i + 1..] {
            let res = judge_seg(&[a, b], &mut r, st);
            checked += 1;
            if a < sig_len {
                inside += 1;
            }
            st.judge(res)?;
        }
    }
    if c.sampled {
        // regular chunking at typical segment sizes
        for m in [256usize, 512, 536, 1024, 1448, 1460, 2048] {
            let cuts: Vec<usize> = (1..).map(|k| k * m).take_while(|x| *x < n).collect();
            if cuts.is_empty() {
                continue;
            }
            let res = judge_seg(&cuts, &mut r, st);
            checked += 1;
            st.judge(res)?;
        }
    }
    for kc in &c.kcuts {
        let mut cuts: Vec<usize> = kc.iter().map(|p| 1 + pick(*p, n.saturating_sub(1).max(1))).filter(|x| *x < n).collect();
        cuts.sort();
        cuts.dedup();
        if cuts.is_empty() {
            continue;
        }
        let a = cuts[0];
        let res = judge_seg(&cuts, &mut r, st);
        checked += 1;
        if a < sig_len {
            inside += 1;
        }
        st.judge(res)?;
    }
    // zero-length data segments: before the stream, and at an arbitrary inner offset
    {
        let res = judge_seg(&[0], &mut r, st);
        checked += 1;
        st.judge(res)?;
        let a = sig_len + (c.sport as usize % (n - sig_len).max(1));
        if a < n {
            let res = judge_seg(&[a, a], &mut r, st);
            checked += 1;
            st.judge(res)?;
        }
    }
    // plain byte-by-byte delivery (all-ones composition)
    {
        let cuts: Vec<usize> = (1..n).collect();
        let res = judge_seg(&cuts, &mut r, st);
        checked += 1;
        inside += 1;
        st.judge(res)?;
    }
    st.frames(r.frames);
    st.add_extra("segmentations_checked", checked);
    st.add_extra("segmentations_with_first_cut_inside_signature", inside);
    if !t_inf || what == "http-damaged" || what == "rpc-fragments" {
        st.nontrivial_hash(fnv(&s));
        st.sample(|| json!({"protocol": what, "stream": hex(&s[..n.min(120)]), "length": n, "signature_len": sig_len, "request_end": req_end, "trigger_offset": t, "segmentations": checked}));
    }
    Ok(())
}

fn short(r: &SegReply) -> String {
    match r {
        SegReply::Data(p) => format!("Data({} bytes: {})", p.len(), String::from_utf8_lossy(&p[..p.len().min(24)])),
        other => format!("{:?}", other),
    }
}

impl Prop for C11 {
    fn id(&self) -> &'static str {
        "C11"
    }
    fn rule(&self) -> &'static str {
        "cases = request streams from the HTTP grammar; the same requests damaged behind the signature (a junk line — CR inside a name, no colon, empty name, NUL / high bytes, a second request line, obsolete folding — inserted at a line boundary with CRLF / LF / no line end, and bytes set / inserted / deleted): for these no verdict is expected, only that every segmentation agrees with the unsplit delivery (non-trivial whether answered or not); (9 verbs, targets incl. non-UTF-8, 0..3 headers, CRLF/LF per line, optional trailing bytes) and the ONC-RPC-over-TCP call generator (record mark, credential/verifier lengths incl. non-empty verifiers, arguments), length <= ~120 (quick) / ~400 (thorough), delivered through the real path (SYN, learned cookie, PSH|ACK segments with exact seq/ack). Plus streams of 300..12000 bytes (request-target, one header value, the bytes behind the empty line or the call arguments made long; no segment exceeds 4000 bytes, the coarsest delivery of a longer stream is in 4000-byte segments) checked over a boundary set of cuts (every offset of the first 64 bytes, signature end, request end, 2^k-1/2^k/2^k+1 for k=6..13, typical segment sizes, all pairs of those) and regular chunkings of 256..2048 bytes. For every other stream: ALL 1-cut and ALL 2-cut segmentations (exhaustive), the all-ones composition and 24 random k-cut compositions. Oracle: two reference deliveries (unsplit; finest = signature segment then one byte per segment) define the trigger offset T and reply R; T must equal the end of the request per the grammar (HTTP: LF of the empty line; RPC: last byte of the verifier); in every other segmentation each segment ending before T gets a bare ACK and the first segment ending at or after T carries R (HTTP Date masked). Segmentations whose first cut lies inside the identifying signature fall under the listed known finding cut-inside-signature (still executed; reported as KNOWN-FINDING, not as violation). Non-trivial = stream is answered; distinct by stream hash; segmentations counted in coverage.segmentations_checked."
    }
    fn run(&self, ctx: &mut RunCtx) {
        let n = ctx.share(ctx.tier.n(8_000, 60_000));
        ctx.run_generated("cuts", n, case_strategy(false), check);
        if ctx.tier == Tier::Thorough {
            let m = ctx.share(4_000);
            ctx.run_generated("cuts-long", m, case_strategy(true), check);
        }
        let l = ctx.share(ctx.tier.n(1_500, 10_000));
        ctx.run_generated("cuts-kilobytes", l, long_case_strategy(), check);
        if ctx.worker == 0 {
            ctx.st.exhaustive_parts.push("TCP segmentations: all 1-cut and all 2-cut compositions of every generated stream".into());
        }
    }
    fn replay(&self, _stream: &str, case: &Value, st: &mut Stats) -> Check {
        check(&serde_json::from_value(case.clone()).map_err(|e| Failure::new(format!("bad case: {}", e)))?, st)
    }
}
