// C14 — DNS: IN/A queries get a faithful, parseable answer with the queried address.

use crate::vf::shadow::{shadow_opt, with_shadow, Shadow};
use proptest::collection::vec;
use proptest::prelude::*;
use serde::{Deserialize, Serialize};
use serde_json::{json, Value};
use std::net::IpAddr;

use crate::vf::codec::*;
use crate::vf::dec_app::*;
use crate::vf::engine::*;
use crate::vf::gen::*;
use crate::vf::gen_app::*;
use crate::vf::sut::*;
use crate::vf::util::*;

pub struct C14;

#[derive(Clone, Debug, Serialize, Deserialize, PartialEq)]
pub enum Fault {
    None,
    /// question `idx` gets this (type, class) != (A, IN)
    NotInA { idx: u16, qtype: u16, qclass: u16 },
    Truncated(u16),
    /// the header announces authority / additional records (e.g. the EDNS0 OPT record of every
    /// modern resolver) that are missing or cut short: a truncated message
    MissingRecords { ns: u16, ar: u16, partial: Hex },
}

#[derive(Clone, Debug, Serialize, Deserialize, PartialEq)]
pub struct Case {
    pub scn: Scenario,
    pub sport: u16,
    pub dport: u16,
    pub q: DnsQuery,
    pub fault: Fault,
    /// IP header fields the responder is not documented to look at
    #[serde(default)]
    pub tweak: Option<IpTweak>,
    /// sibling traffic sent before every frame of the case (vf/shadow.rs)
    #[serde(default)]
    pub shadow: Option<Shadow>,
}

pub fn case_strategy() -> impl Strategy<Value = Case> {
    (case_strategy0(), shadow_opt()).prop_map(|(mut c, sh)| {
        c.shadow = sh;
        c
    })
}

fn case_strategy0() -> impl Strategy<Value = Case> {
    let fault = prop_oneof![
        6 => Just(Fault::None),
        2 => (any::<u16>(), prop_oneof![3 => prop::sample::select(vec![2u16, 5, 12, 15, 16, 28, 33, 255, 0]), 2 => Just(1u16), 1 => prop::sample::select(vec![0x0101u16, 0x8001, 0x0100, 0x4001]), 1 => any::<u16>()], prop_oneof![3 => Just(1u16), 1 => prop::sample::select(vec![3u16, 4, 255, 0]), 2 => prop::sample::select(vec![0x8001u16, 0x0101, 0x0100, 0x8003, 0x4001, 0xff01, 0x0081]), 1 => any::<u16>()])
            .prop_map(|(idx, qtype, qclass)| Fault::NotInA { idx, qtype: if qtype == 1 && qclass == 1 { 28 } else { qtype }, qclass }),
        2 => any::<u16>().prop_map(Fault::Truncated),
        1 => (prop_oneof![2 => Just(0u16), 1 => 1u16..3], prop_oneof![3 => Just(1u16), 1 => 1u16..4], prop_oneof![2 => Just(vec![]), 1 => Just(vec![0u8]), 1 => Just(vec![0, 0, 41, 0x10, 0, 0, 0]), 1 => proptest::collection::vec(any::<u8>(), 1..10)]).prop_map(|(ns, ar, partial)| Fault::MissingRecords { ns, ar, partial: Hex(partial) }),
    ];
    (scenario_levels(Fam::V4), port(), port(), dns_query(8), fault, prop::option::weighted(0.25, crate::vf::props::c03::ip_tweak())).prop_map(|(scn, sport, dport, q, fault, tweak)| Case { shadow: None, scn, sport, dport, q, fault, tweak })
}

pub fn check(c: &Case, st: &mut Stats) -> Check {
    with_shadow(&c.shadow, st, |st| check0(c, st))
}

fn check0(c: &Case, st: &mut Stats) -> Check {
    Sut::reset();
    st.eval();
    let _ambient = AmbientGuard::set(&c.tweak);
    let sut = Sut::new(&c.scn.cfg);
    let mut q = c.q.clone();
    let k = q.questions.len();
    let mut negative = false;
    match &c.fault {
        Fault::None => {}
        Fault::NotInA { idx, qtype, qclass } => {
            if k == 0 {
                return Ok(());
            }
            let i = pick(*idx, k);
            q.questions[i].qtype = *qtype;
            q.questions[i].qclass = *qclass;
            negative = true;
        }
        Fault::Truncated(_) => negative = true,
        Fault::MissingRecords { .. } => negative = true,
    }
    let mut bytes = q.bytes();
    if let Fault::MissingRecords { ns, ar, partial } = &c.fault {
        bytes[8] = (*ns >> 8) as u8;
        bytes[9] = *ns as u8;
        bytes[10] = (*ar >> 8) as u8;
        bytes[11] = *ar as u8;
        // fewer bytes than the smallest record (root name + type + class + ttl + rdlength = 11)
        bytes.extend_from_slice(&partial[..partial.len().min(10)]);
    }
    if let Fault::Truncated(p) = &c.fault {
        if bytes.len() <= 12 && k == 0 {
            // a bare header truncated: still "truncated"
        }
        let cut = pick(*p, bytes.len());
        bytes.truncate(cut);
    }
    // precondition: the message does not itself complete another protocol's signature
    let r = crate::vf::sig::ref_identify(&bytes, true);
    if !r.protos.is_empty() || r.eoi_as_wildcard.is_some() {
        st.exclude("completes-another-signature");
        return Ok(());
    }
    let nul = q.questions.iter().any(|x| x.has_nul_in_label());
    st.frames(1);
    let out = sut.frame(&udp_frame(&c.scn.net, c.sport, c.dport, &bytes));
    let app: Option<Vec<u8>> = match &out {
        Out::Reply(rp) => decode_reply(rp).map_err(Failure::new)?.app().map(|a| a.to_vec()),
        Out::Silence => None,
        Out::Panic(p) => return Err(Failure::keyed(p.key(), format!("panic: {} {}", p.file, p.msg))),
    };
    st.class(&format!("{}:k={}", match &c.fault { Fault::None => "query", Fault::NotInA { .. } => "fault:not-IN/A", Fault::Truncated(_) => "fault:truncated", Fault::MissingRecords { .. } => "fault:announced-records-missing" }, k.min(4)));
    if nul {
        st.class("label-with-NUL");
    }
    if q.questions.iter().any(|x| x.labels.iter().any(|l| l.iter().any(|b| *b >= 0x80))) {
        st.class("label-with-high-bytes");
    }
    if q.flags & 0x7800 != 0 {
        st.class("opcode!=0");
    }
    let show = || hex(&bytes[..bytes.len().min(160)]);
    if negative {
        // truncated to nothing but a valid shorter message? a prefix that ends exactly after a
        // complete question list with a smaller count cannot occur: the count is in the header.
        if k >= 1 || matches!(c.fault, Fault::Truncated(_) | Fault::MissingRecords { .. }) {
            st.nontrivial_hash(fnv(&bytes));
        }
        return match app {
            None => Ok(()),
            Some(a) if nul => Err(Failure::keyed("nul-in-label", format!("label containing a zero octet: faulty message answered: {} -> {}", show(), hex(&a[..a.len().min(160)])))),
            Some(a) => vfail!("{} answered: {} -> {}", if matches!(c.fault, Fault::Truncated(_) | Fault::MissingRecords { .. }) { "truncated DNS message" } else { "DNS message with a question that is not IN/A" }, show(), hex(&a[..a.len().min(160)])),
        };
    }
    if k == 0 {
        // "one answer per question" is vacuous: a reply is not demanded, but must be consistent
        if let Some(a) = &app {
            let m = parse_dns(a).map_err(|e| Failure::new(format!("reply to a question-less query does not parse: {}", e)))?;
            vensure!(m.id == q.id && m.questions.is_empty() && m.answers.is_empty(), "reply to a question-less query has id {:#x}, {} questions, {} answers", m.id, m.questions.len(), m.answers.len());
        }
        return Ok(());
    }
    st.nontrivial_hash(fnv(&bytes));
    let res: Check = (|| {
        let a = match &app {
            Some(a) => a,
            None => vfail!("IN/A query with {} question(s) not answered: {}", k, show()),
        };
        st.sample(|| json!({"query": hex(&bytes[..bytes.len().min(100)]), "reply": hex(&a[..a.len().min(100)]), "sent_to": c.scn.net.sip}));
        let m = parse_dns(a).map_err(|e| Failure::new(format!("reply does not parse completely: {} (query {} reply {})", e, show(), hex(&a[..a.len().min(200)]))))?;
        vensure!(m.id == q.id, "reply id {:#06x} != query id {:#06x}", m.id, q.id);
        vensure!(m.flags & 0x8000 != 0, "reply without QR=1 (flags {:#06x})", m.flags);
        vensure!(m.flags & 0x7800 == q.flags & 0x7800, "opcode not echoed: query flags {:#06x}, reply flags {:#06x}", q.flags, m.flags);
        vensure!(m.flags & 0x0100 == q.flags & 0x0100, "RD not echoed: query flags {:#06x}, reply flags {:#06x}", q.flags, m.flags);
        vensure!(m.questions.len() == k, "reply has {} questions, query had {}", m.questions.len(), k);
        vensure!(a[12..m.questions_end] == bytes[12..], "question section not echoed byte for byte: sent {} got {}", hex(&bytes[12..]), hex(&a[12..m.questions_end]));
        vensure!(m.answers.len() == k, "reply has {} answers for {} questions", m.answers.len(), k);
        let dst = match &c.scn.net.sip {
            IpAddr::V4(d) => d.octets(),
            _ => vfail!("harness: C14 is restricted to IPv4"),
        };
        // "exactly one answer per question": a one-to-one matching of answers and questions by owner
        // name (names compare case-insensitively); the statement does not fix the order of the answers
        let names = |ls: &Vec<Vec<u8>>| ls.iter().map(|l| String::from_utf8_lossy(l).to_string()).collect::<Vec<_>>();
        let same = |a: &Vec<Vec<u8>>, b: &Vec<Vec<u8>>| a.len() == b.len() && a.iter().zip(b.iter()).all(|(x, y)| x.eq_ignore_ascii_case(y));
        let mut used = vec![false; m.answers.len()];
        for (i, rr) in m.answers.iter().enumerate() {
            vensure!(rr.typ == 1 && rr.class == 1, "answer {} has type {} class {}", i, rr.typ, rr.class);
            vensure!(rr.rdata.len() == 4, "answer {} has RDLENGTH {}", i, rr.rdata.len());
            vensure!(rr.rdata == dst, "answer {} RDATA {:?} is not the address the query was sent to {:?}", i, rr.rdata, dst);
        }
        for (qi, qq) in q.questions.iter().enumerate() {
            let ql: Vec<Vec<u8>> = qq.labels.iter().map(|l| l.0.clone()).collect();
            match (0..m.answers.len()).find(|ai| !used[*ai] && same(&m.answers[*ai].name, &ql)) {
                Some(ai) => used[ai] = true,
                None => vfail!("no answer of its own for question {} ({:?}): the answers are owned by {:?}", qi, names(&ql), m.answers.iter().map(|r| names(&r.name)).collect::<Vec<_>>()),
            }
        }
        vensure!(m.authority.is_empty() && m.additional.is_empty() || true, "");
        Ok(())
    })();
    match res {
        Err(f) if nul => Err(Failure::keyed("nul-in-label", format!("label containing a zero octet: {}", f.msg))),
        other => other,
    }
}

impl Prop for C14 {
    fn id(&self) -> &'static str {
        "C14"
    }
    fn rule(&self) -> &'static str {
        "cases = DNS queries over UDP/IPv4 to arbitrary destination addresses and ports: arbitrary id, flag word with QR=0 and every other bit arbitrary (opcode, AA, TC, RD, RA, Z, RCODE), k in 0..8 IN/A questions, names as label sequences (labels 1..63 bytes, total <= 255; LDH, arbitrary non-zero bytes, and a separately tracked class holding 0x00 / 0xC0 bytes), no other sections, no trailing bytes; messages that complete another protocol's signature per the reference automaton are excluded and counted. Negative: one question changed to a type/class other than IN/A; truncation at every byte. Oracle: independent DNS decoder with compression-pointer support: id/opcode/RD echoed, QR=1, question section byte-identical, one answer per question owned by the queried name with type A, class IN, RDLENGTH 4, RDATA = destination IPv4 address, header counts match the records present and the message is consumed exactly; negatives get no reply. Non-trivial = k >= 1 (or a truncation); distinct by message hash. Shadow traffic (vf/shadow.rs): three cases in ten process, before every frame of the case, a sibling of that frame whose result is discarded — the same frame again, or one tuple element (source / destination port, source / destination address, source MAC), one payload bit or the payload length changed; TCP conversations are shadowed whole on a sibling flow validated with its own cookie; sound by the statement of C08, cases whose own flows meet a shadow tuple are excluded and counted."
    }
    fn run(&self, ctx: &mut RunCtx) {
        let n = ctx.share(ctx.tier.n(2_500_000, 20_000_000));
        ctx.run_generated("dns", n, case_strategy(), check);
    }
    fn replay(&self, _stream: &str, case: &Value, st: &mut Stats) -> Check {
        check(&serde_json::from_value(case.clone()).map_err(|e| Failure::new(format!("bad case: {}", e)))?, st)
    }
}
