// C01 — no frame, history or configuration can crash the responder.

use proptest::collection::vec;
use proptest::prelude::*;
use serde::{Deserialize, Serialize};
use serde_json::{json, Value};
use std::net::IpAddr;

use crate::vf::codec::*;
use crate::vf::engine::*;
use crate::vf::gen::*;
use crate::vf::session::*;
use crate::vf::sut::*;
use crate::vf::traffic::*;
use crate::vf::util::*;

pub struct C01;

#[derive(Clone, Debug, Serialize, Deserialize, PartialEq)]
pub struct Case {
    pub scn: Scenario,
    pub base_sport: u16,
    pub dport: u16,
    pub steps: Vec<Step>,
}

pub fn case_strategy(max_steps: usize) -> impl Strategy<Value = Case> {
    (scenario(Fam::Any), any::<u16>(), port(), vec(step(), 1..=max_steps)).prop_map(|(scn, base_sport, dport, steps)| Case { scn, base_sport: base_sport % 60000, dport, steps })
}

/// does the frame pass the L2 gate and reach an L3 parser, per the reference decoder?
pub fn reaches_l3(cfg: &Cfg, f: &[u8]) -> Option<&'static str> {
    let v = view_request(f)?;
    if !auth_macs(cfg).contains(&v.dst) {
        return None;
    }
    match v.ethertype {
        ET_ARP if f.len() >= 14 + 28 => Some("arp"),
        ET_V4 | ET_V6 => match &v.ip {
            Some(ip) => Some(match ip.proto {
                P_TCP => "ip/tcp",
                P_UDP => "ip/udp",
                P_ICMP | P_ICMP6 => "ip/icmp",
                _ => "ip/other",
            }),
            None => None,
        },
        _ => None,
    }
}

/// "later traffic keeps being answered": one ARP (or NS), one echo, one full SYN -> PSH|ACK
/// exchange on a fresh flow.
pub fn canary(sut: &Sut, net: &Net, sport: u16) -> Check {
    let pinfo = |o: &Out| o.brief();
    // address resolution
    match (&net.cip, &net.sip) {
        (IpAddr::V4(c), IpAddr::V4(s)) => {
            let o = sut.frame(&arp_req_frame(&net.cmac, &net.dmac, c.octets(), s.octets()));
            match o.reply().map(|r| decode_reply(r)) {
                Some(Ok(Dec { l3: L3D::Arp(m, _), .. })) if m.op == 2 => {}
                _ => vfail!("canary: ARP request for a handled address not answered after the sequence: {}", pinfo(&o)),
            }
        }
        (_, IpAddr::V6(s)) => {
            let o = sut.frame(&ns_frame(net, &s.octets(), &[]));
            match o.reply().map(|r| decode_reply(r)) {
                Some(Ok(d)) if matches!(d.ip().map(|i| &i.l4), Some(L4D::Icmp6 { typ: 136, .. })) => {}
                _ => vfail!("canary: neighbour solicitation for a handled address not answered after the sequence: {}", pinfo(&o)),
            }
        }
        _ => {}
    }
    let o = sut.frame(&echo_frame(net, 0x1234, 7, b"canary"));
    if o.reply().is_none() {
        vfail!("canary: echo request not answered after the sequence: {}", pinfo(&o));
    }
    let flow = Flow { net: net.clone(), sport, dport: 8081 };
    let r = deliver(sut, &flow, 5000, b"GET / HTTP/1.1\r\n\r\n", &[18]);
    match r {
        Ok(v) => match &v[0] {
            SegReply::Data(p) if p.starts_with(b"HTTP/1.1 401") => Ok(()),
            other => vfail!("canary: HTTP request on a fresh TCP flow not answered after the sequence: {:?}", other),
        },
        Err(e) => vfail!("canary: TCP handshake failed after the sequence: {}", e),
    }
}

pub fn check(c: &Case, st: &mut Stats) -> Check {
    Sut::reset();
    let sut = Sut::new(&c.scn.cfg);
    let mut w = World::new(&sut, &c.scn.net, c.base_sport, c.dport);
    st.eval();
    st.class(&format!("logger:{:?}", c.scn.cfg.logger));
    st.class(&format!("level:{}", c.scn.cfg.level));
    st.class(if c.scn.cfg.self_ips.is_some() { "self-ip:present" } else { "self-ip:absent" });
    st.class(if c.scn.cfg.deny.is_some() { "deny:present" } else { "deny:absent" });
    let mut deepest: Option<&'static str> = None;
    let mut result = Ok(());
    'steps: for (i, s) in c.steps.iter().enumerate() {
        st.class(&format!("step:{}", s.kind()));
        for (f, o) in w.send_all(s) {
            if let Some(l) = reaches_l3(&c.scn.cfg, &f) {
                deepest = Some(l);
                st.class(&format!("reached:{}", l));
            }
            if f.len() < 14 {
                st.class("frame<14B");
            }
            if let Out::Panic(p) = &o {
                result = Err(Failure::keyed(p.key(), format!("panic at {}:{} \"{}\" on frame #{} ({}): {}", p.file, p.line, p.msg, i, s.kind(), hex(&f[..f.len().min(200)]))));
                break 'steps;
            }
        }
    }
    st.frames(w.sent);
    if result.is_ok() {
        result = canary(&sut, &c.scn.net, c.base_sport.wrapping_add(100));
        st.frames(5);
    }
    if c.scn.cfg.logger == LoggerKind::Console || c.scn.cfg.logger == LoggerKind::Logfmt {
        let _ = capture_take();
    }
    if deepest.is_some() {
        st.nontrivial_hash(fnv(serde_json::to_string(c).unwrap_or_default().as_bytes()));
        st.sample(|| json!({"config": c.scn.cfg, "steps": c.steps.iter().map(|s| s.kind()).collect::<Vec<_>>(), "first_step": c.steps.first()}));
    }
    result
}

impl Prop for C01 {
    fn id(&self) -> &'static str {
        "C01"
    }
    fn rule(&self) -> &'static str {
        "cases = (configuration over self-IP list x deny list x {none,console,logfmt,recording} logger x log level Off..Trace) x 1..8 hostile steps (raw bytes, L2/L3/L4 headers with lying length fields, ARP/ICMP/ND with hostile options, UDP and handshaken-TCP payloads that are protocol requests, byte-mutated requests, hostile STUN TLV lists; frame-level truncation/overwrite mutations) interpreted against the live responder (cookies learned from its SYN-ACKs), followed by a canary exchange (ARP/NS, echo, SYN -> HTTP request on a fresh flow). Oracle: no panic, canary answered. Non-trivial = at least one frame of the case passes the L2 gate and reaches an L3 parser according to the reference decoder; distinct by hash of the whole case."
    }
    fn wants_relcheck(&self, _tier: Tier) -> bool {
        true
    }
    fn run(&self, ctx: &mut RunCtx) {
        let n = ctx.share(ctx.tier.n(600_000, 8_000_000));
        ctx.run_generated("seq", n, case_strategy(8), check);
    }
    fn replay(&self, _stream: &str, case: &Value, st: &mut Stats) -> Check {
        let c: Case = serde_json::from_value(case.clone()).map_err(|e| Failure::new(format!("bad case: {}", e)))?;
        check(&c, st)
    }
}
