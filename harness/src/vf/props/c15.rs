// C15 — STUN: binding requests get a success response reflecting the observed address.

use crate::vf::shadow::{shadow_opt, with_shadow, Shadow};
use proptest::collection::vec;
use proptest::prelude::*;
use serde::{Deserialize, Serialize};
use serde_json::{json, Value};
use std::net::IpAddr;

use crate::vf::codec::*;
use crate::vf::dec_app::*;
use crate::vf::engine::*;
use crate::vf::gen::*;
use crate::vf::gen_app::*;
use crate::vf::sut::*;
use crate::vf::traffic::{hostile_stun, HostileStun};
use crate::vf::util::*;

pub struct C15;

#[derive(Clone, Debug, Serialize, Deserialize, PartialEq)]
pub enum Msg {
    /// well-formed binding request (positive domain)
    Req(StunReq),
    /// RFC 5389 request with padded (non-multiple-of-4) attribute values
    Padded(StunPadded),
    /// other class (indication / success / error) or other method
    Other { base: StunReq, mtype: u16 },
    /// malformed TLV lists: no crash, and any reply still satisfies the reply invariants
    Hostile(HostileStun),
}

#[derive(Clone, Debug, Serialize, Deserialize, PartialEq)]
pub struct Case {
    pub scn: Scenario,
    pub sport: u16,
    pub dport: u16,
    pub msg: Msg,
    /// IP header fields the responder is not documented to look at
    #[serde(default)]
    pub tweak: Option<IpTweak>,
    /// sibling traffic sent before every frame of the case (vf/shadow.rs)
    #[serde(default)]
    pub shadow: Option<Shadow>,
}

pub fn case_strategy() -> impl Strategy<Value = Case> {
    (case_strategy0(), shadow_opt()).prop_map(|(mut c, sh)| {
        c.shadow = sh;
        c
    })
}

fn case_strategy0() -> impl Strategy<Value = Case> {
    let other_type = prop_oneof![
        3 => prop::sample::select(vec![0x0011u16, 0x0101, 0x0111]),
        3 => prop::sample::select(vec![0x0002u16, 0x0003, 0x0004, 0x0006, 0x0008, 0x0009, 0x000b, 0x0021, 0x0201, 0x0fff]),
        1 => any::<u16>().prop_map(|t| if t & 0x3fff == 1 { 2 } else { t & 0x3fff }),
    ];
    let msg = prop_oneof![
        8 => stun_req().prop_map(Msg::Req),
        2 => stun_padded().prop_map(Msg::Padded),
        3 => (stun_req(), other_type).prop_map(|(base, mtype)| Msg::Other { base, mtype }),
        3 => hostile_stun().prop_map(Msg::Hostile),
    ];
    (scenario_levels(Fam::Any), prop_oneof![4 => port(), 1 => Just(65535u16)], prop_oneof![4 => port(), 1 => Just(65535u16)], msg, prop::option::weighted(0.25, crate::vf::props::c03::ip_tweak())).prop_map(|(scn, sport, dport, msg, tweak)| Case { shadow: None, scn, sport, dport, msg, tweak })
}

/// reply invariants of a binding success response for a request from (src ip, sport)
fn response_ok(a: &[u8], req_tid: &[u8; 16], net: &Net, sport: u16) -> Check {
    let m = parse_stun(a).map_err(|e| Failure::new(format!("response does not parse: {} ({})", e, hex(&a[..a.len().min(120)]))))?;
    vensure!(m.mtype == 0x0101, "response message type {:#06x}, expected Binding Success Response 0x0101", m.mtype);
    vensure!(&m.tid == req_tid, "transaction id not echoed: sent {} got {}", hex(req_tid), hex(&m.tid));
    let ma: Vec<&(u16, Vec<u8>)> = m.attrs.iter().filter(|(t, _)| *t == 1).collect();
    vensure!(ma.len() == 1, "{} MAPPED-ADDRESS attributes in the response", ma.len());
    let (fam, port, addr) = parse_mapped_address(&ma[0].1).map_err(Failure::new)?;
    let want_fam = if net.is_v4() { 1 } else { 2 };
    vensure!(fam == want_fam, "MAPPED-ADDRESS family {} for an IPv{} request", fam, if net.is_v4() { 4 } else { 6 });
    vensure!(port == sport, "MAPPED-ADDRESS port {} is not the request's source port {}", port, sport);
    vensure!(addr == net.cip, "MAPPED-ADDRESS address {} is not the request's source address {}", addr, net.cip);
    Ok(())
}

pub fn check(c: &Case, st: &mut Stats) -> Check {
    with_shadow(&c.shadow, st, |st| check0(c, st))
}

fn check0(c: &Case, st: &mut Stats) -> Check {
    Sut::reset();
    st.eval();
    let _ambient = AmbientGuard::set(&c.tweak);
    let sut = Sut::new(&c.scn.cfg);
    let net = &c.scn.net;
    let (bytes, tid): (Vec<u8>, [u8; 16]) = match &c.msg {
        Msg::Req(r) => (r.bytes(), r.tid()),
        Msg::Padded(p) => {
            let b = p.bytes();
            let mut t = [0u8; 16];
            t.copy_from_slice(&b[4..20]);
            (b, t)
        }
        Msg::Other { base, mtype } => {
            let mut b = base.bytes();
            b[0] = (*mtype >> 8) as u8;
            b[1] = *mtype as u8;
            (b, base.tid())
        }
        Msg::Hostile(h) => {
            let b = h.bytes();
            let mut t = [0u8; 16];
            t.copy_from_slice(&b[4..20]);
            (b, t)
        }
    };
    st.frames(1);
    let fam = if net.is_v4() { "v4" } else { "v6" };
    let reqf = udp_frame(net, c.sport, c.dport, &bytes);
    let out = sut.frame(&reqf);
    if let Out::Panic(p) = &out {
        return Err(Failure::keyed(p.key(), format!("panic: {} {}", p.file, p.msg)));
    }
    let reply: Option<(u16, Vec<u8>)> = match &out {
        Out::Reply(r) => {
            let d = decode_reply(r).map_err(Failure::new)?;
            d.udp().map(|u| (u.sport, u.payload.clone()))
        }
        _ => None,
    };
    let show = || hex(&bytes[..bytes.len().min(120)]);
    match &c.msg {
        Msg::Req(_) | Msg::Padded(_) => {
            // identification is C10's business: listed matcher divergences are excluded and counted
            match super::c10::divergence(&bytes, true) {
                super::c10::Divergence::Known(k) => {
                    st.exclude(k);
                    return Ok(());
                }
                super::c10::Divergence::Unlisted(m) => vfail!("{}: {}", show(), m),
                super::c10::Divergence::None => {}
            }
            let (cp, kinds): (usize, String) = match &c.msg {
                Msg::Req(r) => (r.change_port_count(), format!("{}:attrs={}:{}", if r.magic { "magic" } else { "classic" }, r.attrs.len().min(4), if r.attr_bytes().len() > 255 { "len>255" } else { "len<=255" })),
                Msg::Padded(p) => (p.change_port_count(), "padded-attributes".to_string()),
                _ => (0, String::new()),
            };
            st.class(&format!("request:{}:{}", kinds, fam));
            if cp > 0 {
                st.class("change-port");
            }
            if c.dport == 65535 && cp > 0 {
                st.class("change-port-wraps");
            }
            st.nontrivial(&(kinds.clone(), fam, cp));
            st.nontrivial_hash(fnv(&bytes));
            let (rsport, a) = match &reply {
                Some(x) => x,
                None => vfail!("STUN binding request not answered ({}): {}", kinds, show()),
            };
            st.sample(|| json!({"request": show(), "response": hex(&a[..a.len().min(80)]), "from_port": rsport, "to_port": c.dport}));
            vensure!(classify_reply(a, false) == Responder::Stun, "binding request answered by {:?}: {} -> {}", classify_reply(a, false), show(), hex(&a[..a.len().min(80)]));
            response_ok(a, &tid, net, c.sport)?;
            let want = if cp > 0 { c.dport.wrapping_add(1) } else { c.dport };
            vensure!(*rsport == want, "response sent from port {} (request to port {}, change-port {})", rsport, c.dport, if cp > 0 { "requested: expected port+1 mod 2^16" } else { "not requested" });
            Ok(())
        }
        Msg::Other { mtype, .. } => {
            st.class(&format!("other-class-or-method:{}", if mtype & 0x0110 != 0 && (mtype & 0x3eef) == 1 { "class" } else { "method" }));
            st.nontrivial_hash(fnv(&bytes));
            if let Some((_, a)) = &reply {
                vensure!(classify_reply(a, false) != Responder::Stun, "STUN message type {:#06x} (not a Binding Request) got a STUN response: {} -> {}", mtype, show(), hex(&a[..a.len().min(80)]));
            }
            Ok(())
        }
        Msg::Hostile(_) => {
            st.class(&format!("hostile-tlv:{}", if reply.is_some() { "answered" } else { "silent" }));
            if let Some((rsport, a)) = &reply {
                if classify_reply(a, false) == Responder::Stun {
                    st.nontrivial_hash(fnv(&bytes));
                    response_ok(a, &tid, net, c.sport)?;
                    vensure!(*rsport == c.dport || *rsport == c.dport.wrapping_add(1), "response to a malformed request sent from port {} (request to {})", rsport, c.dport);
                }
            }
            Ok(())
        }
    }
}

// ---------------------------------------------------------------------------------------
// STUN over a TCP flow: once the flow's leading bytes were identified as STUN (RFC 5389 request
// with magic cookie), every later segment is handed to the STUN responder, without a signature
// in front of it. "Other classes and methods get no STUN response" must hold there too.

#[derive(Clone, Debug, Serialize, Deserialize, PartialEq)]
pub struct TcpCase {
    pub scn: Scenario,
    pub sport: u16,
    pub dport: u16,
    /// first segment: a magic-cookie binding request with > 255 attribute bytes (complete, or
    /// cut short after `first_keep` bytes so that it is identified but not answered)
    pub first: StunReq,
    pub first_keep: Option<u16>,
    /// later segments: (message, message type to overwrite it with)
    pub later: Vec<(StunReq, Option<u16>)>,
}

pub fn tcp_case_strategy() -> impl Strategy<Value = TcpCase> {
    let other_type = prop_oneof![
        2 => prop::sample::select(vec![0x0011u16, 0x0101, 0x0111, 0x0002, 0x0003, 0x0004, 0x0006, 0x0008, 0x0009, 0x000b, 0x0021, 0x0201, 0x0fff]),
        // methods whose high bits (first byte of the message) are set while the low byte reads 0x01
        2 => (1u16..64).prop_map(|h| ((h << 8) | 0x01) & 0x3fff).prop_map(|t| if t & 0x3fff == 1 { 0x0201 } else { t }),
        1 => any::<u16>().prop_map(|t| if t & 0x3fff == 1 { 2 } else { t & 0x3fff }),
    ];
    (scenario_levels(Fam::Any), port(), port(), stun_req_magic_big(), prop::option::weighted(0.5, 20u16..200), vec((stun_req(), prop::option::weighted(0.6, other_type)), 1..=3))
        .prop_map(|(scn, sport, dport, first, first_keep, later)| TcpCase { scn, sport, dport, first, first_keep, later })
}

pub fn tcp_check(c: &TcpCase, st: &mut Stats) -> Check {
    use crate::vf::session::*;
    Sut::reset();
    st.eval();
    let sut = Sut::new(&c.scn.cfg);
    let net = &c.scn.net;
    let mut first = c.first.bytes();
    if let Some(k) = c.first_keep {
        first.truncate((k as usize).max(20));
    }
    match super::c10::divergence(&first, false) {
        super::c10::Divergence::Known(k) => {
            st.exclude(k);
            return Ok(());
        }
        super::c10::Divergence::Unlisted(m) => vfail!("{}: {}", hex(&first[..first.len().min(60)]), m),
        super::c10::Divergence::None => {}
    }
    let mut stream = first.clone();
    let mut lens = vec![first.len()];
    let mut segs: Vec<(Vec<u8>, [u8; 16], bool, usize)> = Vec::new();
    for (m, t) in &c.later {
        let mut b = m.bytes();
        if let Some(t) = t {
            b[0] = (*t >> 8) as u8;
            b[1] = *t as u8;
        }
        lens.push(b.len());
        stream.extend_from_slice(&b);
        segs.push((b, m.tid(), t.is_none(), m.change_port_count()));
    }
    let flow = Flow { net: net.clone(), sport: c.sport, dport: c.dport };
    st.frames(1 + lens.len() as u64);
    let cookie = learn_cookie(&sut, &flow, 77).map_err(Failure::new)?;
    let mut seq = 78u32;
    let mut off = 0usize;
    for (i, l) in lens.iter().enumerate() {
        let seg = &stream[off..off + l];
        off += l;
        let out = sut.frame(&flow.data(seq, cookie.wrapping_add(1), seg));
        seq = seq.wrapping_add(*l as u32);
        if let Out::Panic(p) = &out {
            return Err(Failure::keyed(p.key(), format!("panic: {} {}", p.file, p.msg)));
        }
        let (rsport, a): (u16, Vec<u8>) = match &out {
            Out::Reply(r) => {
                let d = decode_reply(r).map_err(Failure::new)?;
                match d.tcp() {
                    Some(t) if !t.payload.is_empty() => (t.sport, t.payload.clone()),
                    _ => continue,
                }
            }
            _ => continue,
        };
        if classify_reply(&a, true) != Responder::Stun {
            continue;
        }
        if i == 0 {
            st.class("tcp:first-segment-answered");
            response_ok(&a, &c.first.tid(), net, c.sport)?;
            continue;
        }
        let (b, tid, is_request, cp) = &segs[i - 1];
        st.nontrivial_hash(fnv(b) ^ 0x7c9);
        if !*is_request {
            vfail!("segment #{} of a STUN flow over TCP has message type {:#06x} (not a Binding Request) but got a STUN response: {} -> {}", i, be16(b, 0), hex(&b[..b.len().min(60)]), hex(&a[..a.len().min(60)]));
        }
        st.class("tcp:later-binding-request-answered");
        response_ok(&a, tid, net, c.sport)?;
        let want = if *cp > 0 { c.dport.wrapping_add(1) } else { c.dport };
        vensure!(rsport == want, "response over TCP sent from port {} (request to port {}, change-port count {})", rsport, c.dport, cp);
    }
    for (_, _, is_request, _) in &segs {
        st.class(if *is_request { "tcp:later-segment:binding-request" } else { "tcp:later-segment:other-class-or-method" });
    }
    Ok(())
}

impl Prop for C15 {
    fn id(&self) -> &'static str {
        "C15"
    }
    fn rule(&self) -> &'static str {
        "cases = STUN messages over UDP, both IP versions, source/destination ports incl. 65535: Binding Requests with the RFC 5389 magic cookie and 0..6 well-formed TLVs (CHANGE-REQUEST at most once, USERNAME/SOFTWARE/PRIORITY/unknown types, value lengths 0..64 multiples of 4, plus a variant with > 255 attribute bytes so that the attribute walk is exercised outside the matcher's known shadowing divergence), RFC 3489 requests without cookie in the two published forms, RFC 5389 requests whose attribute values are padded (lengths not multiples of 4); negatives: indication / success / error class and other methods; malformed TLV lists (only: no crash, any STUN reply satisfies the invariants). Over TCP: a flow whose first segment is a magic-cookie request of > 255 attribute bytes (complete, or cut short so that the flow is identified but nothing is answered yet) followed by 1..3 segments holding STUN messages whose type is a Binding Request or any other class / method (incl. methods whose high bits live in the first byte while the second byte reads 0x01): only Binding Requests may get a STUN response, and that response satisfies the same invariants. Oracle: independent STUN decoder: type 0x0101, length field = attribute bytes, 128-bit transaction id echoed, exactly one MAPPED-ADDRESS with family/port/address = IP version/source port/source address, response source port = dport (+1 mod 2^16 with change-port). Requests inside a listed matcher divergence (C10) are excluded and counted. Non-trivial = well-formed requests and answered hostile ones; distinct by message hash and by (attribute-list shape, cookie mode, IP version). Shadow traffic (vf/shadow.rs): three cases in ten process, before every frame of the case, a sibling of that frame whose result is discarded — the same frame again, or one tuple element (source / destination port, source / destination address, source MAC), one payload bit or the payload length changed; TCP conversations are shadowed whole on a sibling flow validated with its own cookie; sound by the statement of C08, cases whose own flows meet a shadow tuple are excluded and counted."
    }
    fn run(&self, ctx: &mut RunCtx) {
        let n = ctx.share(ctx.tier.n(2_500_000, 20_000_000));
        ctx.run_generated("stun", n, case_strategy(), check);
        let m = ctx.share(ctx.tier.n(600_000, 5_000_000));
        ctx.run_generated("stun-tcp", m, tcp_case_strategy(), tcp_check);
    }
    fn replay(&self, stream: &str, case: &Value, st: &mut Stats) -> Check {
        let bad = |e: serde_json::Error| Failure::new(format!("bad case: {}", e));
        match stream {
            "stun-tcp" => tcp_check(&serde_json::from_value(case.clone()).map_err(bad)?, st),
            _ => check(&serde_json::from_value(case.clone()).map_err(bad)?, st),
        }
    }
}
