// C06 — SYN policy mimics Linux; SYN-ACK acks seq+1 with a deterministic cookie.

use proptest::collection::vec;
use proptest::prelude::*;
use serde::{Deserialize, Serialize};
use serde_json::{json, Value};
use std::net::IpAddr;

use crate::vf::codec::*;
use crate::vf::engine::*;
use crate::vf::gen::*;
use crate::vf::session::*;
use crate::vf::sut::*;
use crate::vf::util::*;

pub struct C06;

#[derive(Clone, Debug, Serialize, Deserialize, PartialEq)]
pub enum Hist {
    None,
    /// handshakes and data on other flows
    OtherFlows(u8),
    /// an earlier SYN on the same flow
    EarlierSyn(u32),
    /// the same flow already validated by a data segment
    Validated,
}

#[derive(Clone, Debug, Serialize, Deserialize, PartialEq)]
pub struct Ctx {
    pub scn: Scenario,
    pub sport: u16,
    pub dport: u16,
    pub seq: u32,
    pub payload: Hex,
    pub opt_words: u8,
    pub hist: Hist,
    /// variations for the metamorphic cookie relation
    pub salt: u8,
    pub key2: [u64; 2],
    /// source endpoint = destination endpoint (same address, same port)
    #[serde(default)]
    pub self_addressed: bool,
    /// the three reserved bits of the TCP header (between data offset and NS): not flags
    #[serde(default)]
    pub reserved: u8,
    /// urgent pointer field (meaningful to a receiver only with URG; the SYN policy of the statement
    /// is about flags alone)
    #[serde(default)]
    pub urg: u16,
    /// window field of the SYN
    #[serde(default)]
    pub window: Option<u16>,
    /// number of other connections validated (handshake + data) before the SYNs are sent
    #[serde(default)]
    pub crowd: u32,
}

pub fn ctx_strategy() -> impl Strategy<Value = Ctx> {
    (
        scenario_quiet(Fam::Any),
        port(),
        port(),
        prop_oneof![1 => any::<u32>(), 1 => prop::sample::select(vec![0u32, 1, 0x7fffffff, 0x80000000, 0xfffffffe, 0xffffffff])],
        prop_oneof![2 => Just(Hex(vec![])), 1 => vec(any::<u8>(), 1..64).prop_map(Hex)],
        prop_oneof![3 => Just(0u8), 1 => 1u8..=10],
        prop_oneof![2 => Just(Hist::None), 1 => (1u8..4).prop_map(Hist::OtherFlows), 1 => any::<u32>().prop_map(Hist::EarlierSyn), 1 => Just(Hist::Validated)],
        any::<u8>(),
        (any::<[u64; 2]>(), prop::bool::weighted(0.06), prop_oneof![3 => Just(0u8), 1 => 1u8..8], prop_oneof![4 => Just(0u16), 2 => prop::sample::select(vec![1u16, 2, 63, 64, 65, 0x7fff, 0xffff]), 1 => any::<u16>()], prop::option::weighted(0.3, prop_oneof![prop::sample::select(vec![0u16, 1, 255, 256, 512, 1024, 65535]), any::<u16>()]), prop_oneof![400 => Just(0u32), 1 => prop::sample::select(vec![1100u32, 4200, 66000])]),
    )
        .prop_map(|(mut scn, mut sport, dport, seq, payload, opt_words, hist, salt, (key2, self_addressed, reserved, urg, window, crowd))| {
            if self_addressed {
                scn.net.cip = scn.net.sip;
                sport = dport;
                if let Some(d) = &mut scn.cfg.deny {
                    let c = scn.net.cip;
                    d.retain(|a| *a != c);
                }
            }
            Ctx { scn, sport, dport, seq, payload, opt_words, hist, salt, key2, self_addressed, reserved, urg, window, crowd }
        })
}

pub fn syn_accepted(flags: u16) -> bool {
    flags & F_SYN != 0 && flags & !(F_SYN | F_PSH | F_URG | F_CWR | F_ECE) == 0 && !(flags & F_CWR != 0 && flags & F_ECE != 0)
}

fn syn_frame(c: &Ctx, net: &Net, sport: u16, dport: u16, flags: u16, seq: u32) -> Vec<u8> {
    let mut h = TcpH::new(sport, dport, seq, 0, flags | ((c.reserved as u16 & 7) << 9));
    h.urg = c.urg;
    if let Some(w) = c.window {
        h.window = w;
    }
    // options: MSS + NOPs, consistent data offset
    if c.opt_words > 0 {
        let mut o = vec![2u8, 4, 0x05, 0xb4];
        o.resize(c.opt_words as usize * 4, 1);
        h.options = o;
    }
    tcp_frame(net, &h, &c.payload)
}

fn synack_seq(o: &Out) -> Result<Option<u32>, String> {
    match o {
        Out::Reply(r) => {
            let d = decode_reply(r)?;
            match d.tcp() {
                Some(t) if t.flags == F_SYN | F_ACK => Ok(Some(t.seq)),
                _ => Ok(None),
            }
        }
        _ => Ok(None),
    }
}

pub fn check(c: &Ctx, st: &mut Stats) -> Check {
    Sut::reset();
    st.eval();
    let cfg = &c.scn.cfg;
    let net = &c.scn.net;
    let sut = Sut::new(cfg);
    let flow = Flow { net: net.clone(), sport: c.sport, dport: c.dport };
    // history
    match &c.hist {
        Hist::None => st.class("history:none"),
        Hist::OtherFlows(n) => {
            st.class("history:other-flows");
            for i in 0..*n {
                let f = Flow { net: net.clone(), sport: c.sport.wrapping_add(1 + i as u16), dport: c.dport };
                let _ = deliver(&sut, &f, 77, b"GET / HTTP/1.1\r\n", &[16]);
            }
        }
        Hist::EarlierSyn(s) => {
            st.class("history:earlier-syn-same-flow");
            let _ = sut.frame(&flow.syn(*s));
        }
        Hist::Validated => {
            st.class("history:validated-same-flow");
            let _ = deliver(&sut, &flow, 77, b"GET / HTTP/1.1\r\n", &[16]);
        }
    }
    if c.crowd > 0 {
        // "whatever happened before": many other connections reached the data stage
        for i in 0..c.crowd {
            let f = Flow { net: net.clone(), sport: (i as u16) ^ 0x5555, dport: 9000u16.wrapping_add((i >> 16) as u16) };
            if (f.sport, f.dport) == (c.sport, c.dport) {
                continue;
            }
            if let Ok(k) = learn_cookie(&sut, &f, i) {
                let _ = sut.frame(&f.data(i.wrapping_add(1), k.wrapping_add(1), b"x"));
            }
        }
        st.frames(2 * c.crowd as u64);
        st.class("history:crowd-of-validated-connections");
    }
    if c.urg != 0 {
        st.class("urgent-pointer-non-zero");
    }
    st.class(if c.payload.is_empty() { "payload:none" } else { "payload:present" });
    st.class(if c.opt_words == 0 { "doff:5" } else { "doff:>5" });
    st.class(if net.is_v4() { "ip:v4" } else { "ip:v6" });
    if c.self_addressed {
        st.class("self-addressed-tuple");
    }
    if c.reserved != 0 {
        st.class("reserved-header-bits-set");
    }
    // all 512 flag values
    let mut cookie: Option<u32> = None;
    for flags in 0u16..512 {
        let f = syn_frame(c, net, c.sport, c.dport, flags, c.seq);
        let o = sut.frame(&f);
        st.frames(1);
        if let Out::Panic(p) = &o {
            return Err(Failure::keyed(p.key(), format!("panic on flags {:#05x}: {} {}", flags, p.file, p.msg)));
        }
        let want = syn_accepted(flags);
        st.nontrivial_hash(fnv(&f));
        if want {
            let r = match &o {
                Out::Reply(r) => r,
                _ => vfail!("SYN with flags {:#05x} (subset of SYN+PSH/URG/CWR/ECE, not CWR&ECE) not answered: {}", flags, hex(&f)),
            };
            let d = decode_reply(r).map_err(Failure::new)?;
            let t = match d.tcp() {
                Some(t) => t,
                None => vfail!("reply to SYN is not TCP"),
            };
            vensure!(t.flags == F_SYN | F_ACK, "reply to SYN (flags {:#05x}) has flags {:#05x}, expected exactly SYN|ACK", flags, t.flags);
            vensure!(t.ack == c.seq.wrapping_add(1), "SYN-ACK acknowledges {} for sequence {} (expected seq+1 mod 2^32)", t.ack, c.seq);
            vensure!(t.payload.is_empty(), "SYN-ACK carries {} payload bytes", t.payload.len());
            match cookie {
                None => cookie = Some(t.seq),
                Some(k) => vensure!(k == t.seq, "cookie changed with the flag set: {:#x} vs {:#x} (flags {:#05x})", k, t.seq, flags),
            }
        } else if let Out::Reply(r) = &o {
            let d = decode_reply(r).map_err(Failure::new)?;
            if let Some(t) = d.tcp() {
                vensure!(t.flags != F_SYN | F_ACK, "segment with flags {:#05x} answered with SYN|ACK: {} -> {}", flags, hex(&f), hex(r));
            }
        }
    }
    let cookie = match cookie {
        Some(k) => k,
        None => vfail!("no SYN-ACK at all"),
    };
    // metamorphic cookie relation -----------------------------------------------------------
    // (a) invariance: other seq, other payload/flags (done above), other MAC, retransmission
    let again = synack_seq(&sut.frame(&syn_frame(c, net, c.sport, c.dport, F_SYN, c.seq ^ 0x5a5a5a5a))).map_err(Failure::new)?;
    vensure!(again == Some(cookie), "cookie depends on the client's sequence number: {:#x} vs {:?}", cookie, again);
    let mut net2 = net.clone();
    net2.cmac[5] ^= 0x10;
    let again = synack_seq(&sut.frame(&syn_frame(c, &net2, c.sport, c.dport, F_SYN, c.seq))).map_err(Failure::new)?;
    vensure!(again == Some(cookie), "cookie depends on the client's MAC: {:#x} vs {:?}", cookie, again);
    st.frames(2);
    // (b) sensitivity: change exactly one of (sip, dip, sport, dport, key); on equality retry
    // with two further values (a coincidence has probability 2^-32 per comparison)
    for what in 0..7 {
        let mut equal = 0;
        for attempt in 0..3u8 {
            let salt = c.salt.wrapping_add(attempt.wrapping_mul(83));
            let mut n = net.clone();
            let mut sp = c.sport;
            let mut dp = c.dport;
            let mut cfg2 = cfg.clone();
            match what {
                0 => n.cip = other_ip(&net.cip, salt),
                1 => {
                    n.sip = other_ip(&net.sip, salt);
                    // keep the changed destination in scope
                    if let Some(l) = &mut cfg2.self_ips {
                        l.push(n.sip);
                    }
                    if let Some(dl) = &mut cfg2.deny {
                        dl.retain(|a| *a != n.cip);
                    }
                    n.dmac = cfg.mac;
                }
                2 => sp = c.sport.wrapping_add(1 + salt as u16),
                3 => dp = c.dport.wrapping_add(1 + salt as u16),
                4 => cfg2.key = [c.key2[0].wrapping_add(attempt as u64), c.key2[1] ^ cfg.key[1].rotate_left(attempt as u32 + 1)],
                5 => cfg2.key = [cfg.key[0] ^ (c.key2[0] | 1).rotate_left(attempt as u32), cfg.key[1]],
                _ => cfg2.key = [cfg.key[0], cfg.key[1] ^ (c.key2[1] | 1).rotate_left(attempt as u32)],
            }
            if what == 0 {
                if let Some(dl) = &mut cfg2.deny {
                    dl.retain(|a| *a != n.cip);
                }
            }
            if cfg2.key == cfg.key && what >= 4 {
                continue;
            }
            // the unchanged SYN again, immediately before the varied one (a retransmission must
            // give the same cookie, and the varied SYN directly follows a SYN of the original tuple
            // under the original key)
            let base = synack_seq(&sut.frame(&syn_frame(c, net, c.sport, c.dport, F_SYN, c.seq))).map_err(Failure::new)?;
            vensure!(base == Some(cookie), "cookie of a retransmitted SYN changed: {:#x} vs {:?}", cookie, base);
            let s2 = Sut::new(&cfg2);
            st.frames(2);
            let k2 = synack_seq(&s2.frame(&syn_frame(c, &n, sp, dp, F_SYN, c.seq))).map_err(Failure::new)?;
            match k2 {
                None => vfail!("SYN not answered after changing input #{} of the cookie", what),
                Some(k2) if k2 == cookie => equal += 1,
                Some(_) => break,
            }
        }
        vensure!(equal < 3, "cookie does not depend on {}: three different values gave the same SYN-ACK sequence number {:#x}", ["the source IP address", "the destination IP address", "the source port", "the destination port", "the key", "the first half of the key", "the second half of the key"][what], cookie);
    }
    let last = synack_seq(&sut.frame(&syn_frame(c, net, c.sport, c.dport, F_SYN, c.seq))).map_err(Failure::new)?;
    vensure!(last == Some(cookie), "cookie of a retransmitted SYN changed after SYNs of other tuples / keys: {:#x} vs {:?}", cookie, last);
    st.sample(|| json!({"tuple": format!("{}:{} -> {}:{}", net.cip, c.sport, net.sip, c.dport), "seq": c.seq, "cookie": cookie, "history": c.hist, "payload_len": c.payload.len()}));
    Ok(())
}

impl Prop for C06 {
    fn id(&self) -> &'static str {
        "C06"
    }
    fn rule(&self) -> &'static str {
        "cases = generated contexts (in-scope scenario with random key, random 4-tuple incl. ports 0/65535, both IP versions, seq in {0,1,2^31-1,2^31,2^32-2,2^32-1,random}, payload none / 1..63 bytes, data offset 5 or 6..15 with options, history in {none, other flows' handshakes and data, earlier SYN on the same flow, same flow already validated, and — rarely — a crowd of 1100 / 4200 / 66000 other connections that reached the data stage}; urgent pointer 0 / 1 / around the payload length / 0xffff / random, window field varied, reserved header bits); in every context ALL 512 values of the 9 TCP flag bits are sent (exhaustive over flags per context). Oracle: flag rule of the statement (exactly SYN|ACK, ack = seq+1, no payload iff SYN and remaining flags within {PSH,URG,CWR,ECE} without CWR&ECE; otherwise no SYN|ACK); cookie relation purely metamorphic: identical across flag sets, client seq, client MAC, payload, history; different when exactly one of source IP, destination IP, source port, destination port, key (both halves, first half only, second half only) changes (three independent retries before reporting, 2^-96); the unchanged SYN is re-sent immediately before every varied SYN and once at the end and must give the same cookie each time. Tuples with source endpoint = destination endpoint are constructed in 6% of the contexts. Non-trivial = every (context, flag value) frame; distinct by frame hash. evaluations counts contexts; frames counts segments."
    }
    fn run(&self, ctx: &mut RunCtx) {
        let n = ctx.share(ctx.tier.n(48_000, 400_000));
        ctx.run_generated("flags", n, ctx_strategy(), check);
        if ctx.worker == 0 {
            ctx.st.exhaustive_parts.push("TCP flags: all 512 values of the 9 flag bits in every generated context".into());
        }
    }
    fn replay(&self, _stream: &str, case: &Value, st: &mut Stats) -> Check {
        check(&serde_json::from_value(case.clone()).map_err(|e| Failure::new(format!("bad case: {}", e)))?, st)
    }
}
