// C07 — TCP data is accepted only behind a valid cookie; seq/ack arithmetic is exact.
// C09 — unvalidated traffic allocates no connection state.
// Both use the same reference connection model: validated = set of flows that sent a data
// segment acknowledging cookie+1.

use proptest::collection::vec;
use proptest::prelude::*;
use serde::{Deserialize, Serialize};
use serde_json::{json, Value};
use std::net::{IpAddr, Ipv4Addr, Ipv6Addr};

use crate::vf::codec::*;
use crate::vf::engine::*;
use crate::vf::gen::*;
use crate::vf::gen_app::*;
use crate::vf::session::*;
use crate::vf::shadow::{shadow_opt, with_shadow, Shadow};
use crate::vf::sut::*;
use crate::vf::traffic::*;
use crate::vf::util::*;

pub struct C07;
pub struct C09;

#[derive(Clone, Debug, Serialize, Deserialize, PartialEq)]
pub enum SeqMode {
    Cont,
    NearWrap(u16),
    Rand(u32),
}

#[derive(Clone, Debug, Serialize, Deserialize, PartialEq)]
pub enum Op {
    Syn { f: u8, flags: u16, seq: u32, #[serde(default)] pay: Option<Pay> },
    Data { f: u8, ack: AckMode, seq: SeqMode, pay: Pay, extra: u16, opt_words: u8 },
    FinAck { f: u8, seq: u32, ack: u32 },
    Ack { f: u8, seq: u32, ack: u32 },
    Rst { f: u8, seq: u32 },
    /// bare ACK / RST / FIN|ACK whose acknowledgement number is related to the flow's cookie
    /// (the segment that completes a three-way handshake is a bare ACK with ack = cookie+1)
    Bare { f: u8, flags: u16, seq: u32, ack: AckMode },
    /// ICMP / ICMPv6 error from flow f's client quoting the TCP header of a segment the responder
    /// sent on that flow (its SYN-ACK: server port -> client port, sequence = the cookie)
    IcmpErr { f: u8, typ4: u8, typ6: u8, code: u8 },
    /// a segment that is neither a SYN nor a data segment: any flag combination without SYN and
    /// without PSH and ACK together (PSH alone, PSH|FIN, URG|ACK, FIN, no flags at all ...), with or
    /// without payload, its acknowledgement field related to the flow's cookie. It acknowledges
    /// nothing as data: no state may be created for it (C09)
    Odd { f: u8, flags: u16, seq: u32, ack: AckMode, pay: Option<Pay> },
    Noise(Step),
}

#[derive(Clone, Debug, Serialize, Deserialize, PartialEq)]
pub struct Case {
    pub scn: Scenario,
    pub nflows: u8,
    pub sport: u16,
    pub dport: u16,
    pub ops: Vec<Op>,
    /// bytes behind the end of the IP packet on every TCP frame of the case's own flows (Ethernet
    /// padding / trailer): not part of any segment
    #[serde(default)]
    pub trailer: Option<Hex>,
    /// sibling traffic before every frame (vf/shadow.rs); not used when the connection table is
    /// being counted (C09)
    #[serde(default)]
    pub shadow: Option<Shadow>,
}

fn small_pay() -> BoxedStrategy<Pay> {
    let inner = (|| {
    prop_oneof![
        3 => vec(any::<u8>(), 0..40).prop_map(|v| Pay::Bytes(Hex(v))),
        1 => (0usize..=1400, any::<u8>()).prop_map(|(n, b)| Pay::Bytes(Hex(vec![b; n]))),
        3 => app_req().prop_map(Pay::App),
        2 => (app_req(), any::<u16>()).prop_map(|(a, t)| Pay::Mutated(a, vec![BMut::Trunc(t)])),
    ]
})();
    inner.boxed()
}

fn ack_mode(good: u32) -> impl Strategy<Value = AckMode> {
    prop_oneof![
        good => Just(AckMode::Good),
        2 => Just(AckMode::Cookie),
        1 => Just(AckMode::Plus2),
        1 => Just(AckMode::Zero),
        1 => Just(AckMode::Max),
        2 => any::<u32>().prop_map(AckMode::Rand),
        2 => (0u8..5).prop_map(AckMode::OtherFlow),
        3 => near_delta().prop_map(AckMode::Near),
    ]
}

pub fn op(good: u32, noise: u32, syn: u32) -> BoxedStrategy<Op> {
    let inner = (|| {
    let extra = prop_oneof![6 => Just(0u16), 1 => prop::sample::select(vec![F_URG, F_FIN, F_SYN, F_RST, F_ECE, F_CWR, F_NS]), 1 => (0u16..512).prop_map(|f| f & !(F_PSH | F_ACK))];
    prop_oneof![
        syn => (0u8..5, (0u16..512), any::<u32>(), prop::option::weighted(0.4, small_pay())).prop_map(|(f, fl, seq, pay)| Op::Syn { f, flags: (fl | F_SYN) & !F_ACK, seq, pay }),
        8 => (0u8..5, ack_mode(good), prop_oneof![4 => Just(SeqMode::Cont), 2 => (0u16..2048).prop_map(SeqMode::NearWrap), 1 => any::<u32>().prop_map(SeqMode::Rand)], small_pay(), extra, prop_oneof![9 => Just(0u8), 1 => 1u8..10])
            .prop_map(|(f, ack, seq, pay, extra, opt_words)| Op::Data { f, ack, seq, pay, extra, opt_words }),
        1 => (0u8..4, any::<u32>(), any::<u32>()).prop_map(|(f, seq, ack)| Op::FinAck { f, seq, ack }),
        1 => (0u8..4, any::<u32>(), any::<u32>()).prop_map(|(f, seq, ack)| Op::Ack { f, seq, ack }),
        1 => (0u8..4, any::<u32>()).prop_map(|(f, seq)| Op::Rst { f, seq }),
        2 => (0u8..4, prop::sample::select(vec![F_ACK, F_ACK, F_RST, F_FIN | F_ACK]), any::<u32>(), ack_mode(4)).prop_map(|(f, flags, seq, ack)| Op::Bare { f, flags, seq, ack }),
        1 => (0u8..4, icmp_err_type(), prop_oneof![3 => 0u8..6, 1 => any::<u8>()]).prop_map(|(f, (typ4, typ6), code)| Op::IcmpErr { f, typ4, typ6, code }),
        1 => (0u8..4, prop_oneof![3 => prop::sample::select(vec![F_PSH, F_PSH | F_FIN, F_PSH | F_URG, F_PSH | F_RST, 0u16, F_FIN, F_URG | F_ACK, F_ACK | F_ECE, F_PSH | F_CWR]), 1 => 0u16..512], any::<u32>(), ack_mode(6), prop::option::weighted(0.6, small_pay())).prop_map(|(f, fl, seq, ack, pay)| {
            let mut flags = fl & !F_SYN;
            if flags & (F_PSH | F_ACK) == (F_PSH | F_ACK) {
                flags &= !F_ACK;
            }
            Op::Odd { f, flags, seq, ack, pay }
        }),
        noise => step_noise().prop_map(Op::Noise),
    ]
})();
    inner.boxed()
}

pub fn case_strategy(maxops: usize, good: u32, noise: u32, syn: u32) -> impl Strategy<Value = Case> {
    (case_strategy0(maxops, good, noise, syn), prop::option::weighted(0.25, prop_oneof![3 => vec(any::<u8>(), 1..=6), 2 => (1usize..=46, any::<u8>()).prop_map(|(n, b)| vec![b; n]), 1 => vec(any::<u8>(), 1..200)].prop_map(Hex)), shadow_opt()).prop_map(|(mut c, trailer, sh)| {
        c.trailer = trailer;
        c.shadow = sh;
        c
    })
}

fn case_strategy0(maxops: usize, good: u32, noise: u32, syn: u32) -> impl Strategy<Value = Case> {
    (scenario_quiet(Fam::Any), 2u8..=5, 1024u16..30000, port(), vec(op(good, noise, syn), 1..=maxops)).prop_map(|(scn, nflows, sport, dport, ops)| Case { scn, nflows, sport, dport, ops, trailer: None, shadow: None })
}

pub fn flows_of(c: &Case) -> Vec<Flow> {
    let net = &c.scn.net;
    let mut v = vec![Flow { net: net.clone(), sport: c.sport, dport: c.dport }];
    // flows that differ from flow 0 in exactly one tuple component
    v.push(Flow { net: net.clone(), sport: c.sport.wrapping_add(1), dport: c.dport });
    let mut n2 = net.clone();
    n2.cip = other_ip(&net.cip, 0);
    // the changed client address must stay off the deny list: the scenario guarantees that only for cip
    if c.scn.cfg.denied(&n2.cip) {
        n2.cip = net.cip;
        v.push(Flow { net: n2, sport: c.sport.wrapping_add(2), dport: c.dport });
    } else {
        v.push(Flow { net: n2, sport: c.sport, dport: c.dport });
    }
    v.push(Flow { net: net.clone(), sport: c.sport, dport: c.dport.wrapping_add(1) });
    // same peer, same ports, another local (destination) address: see cfg_of()
    let mut n5 = net.clone();
    n5.sip = other_ip(&net.sip, 1);
    n5.dmac = c.scn.cfg.mac;
    v.push(Flow { net: n5, sport: c.sport, dport: c.dport });
    // put the destination-address sibling second so that small cases have it too
    v.swap(1, 4);
    v.truncate(c.nflows as usize);
    v
}

/// the case's configuration with the sibling destination address added to the self-IP list
pub fn cfg_of(c: &Case) -> Cfg {
    let mut cfg = c.scn.cfg.clone();
    if let Some(l) = &mut cfg.self_ips {
        l.push(other_ip(&c.scn.net.sip, 1));
    }
    cfg
}

pub struct Mode {
    pub check_replies: bool,
    pub check_table: bool,
}

pub fn run_case(c: &Case, st: &mut Stats, mode: &Mode) -> Check {
    if mode.check_table {
        return run_case0(c, st, mode);
    }
    with_shadow(&c.shadow, st, |st| run_case0(c, st, mode))
}

fn run_case0(c: &Case, st: &mut Stats, mode: &Mode) -> Check {
    Sut::reset();
    st.eval();
    let cfg = cfg_of(c);
    let sut = Sut::new(&cfg);
    let flows = flows_of(c);
    let n = flows.len();
    let padded = |mut fr: Vec<u8>| -> Vec<u8> {
        if let Some(t) = &c.trailer {
            fr.extend_from_slice(t);
        }
        fr
    };
    if c.trailer.is_some() {
        st.class("frames-with-ethernet-trailer");
    }
    let mut cookies = Vec::new();
    for f in &flows {
        match learn_cookie(&sut, f, 4242) {
            Ok(k) => cookies.push(k),
            Err(e) => vfail!("in-scope SYN not answered while learning cookies: {}", e),
        }
    }
    st.frames(n as u64);
    for i in 0..n {
        for j in 0..i {
            if cookies[i] == cookies[j] {
                // flows built to differ in exactly one tuple component. A chance collision has
                // probability 2^-32 per pair and depends on the key; a responder that does not tell
                // the flows apart collides under every key: ask again under another key
                let mut cfg2 = cfg.clone();
                cfg2.key = [cfg.key[0] ^ 0x9e37_79b9_7f4a_7c15, cfg.key[1].rotate_left(17) ^ 0x51];
                let s2 = Sut::new(&cfg2);
                let (a, b) = (learn_cookie(&s2, &flows[i], 4242), learn_cookie(&s2, &flows[j], 4242));
                if a.is_err() || a != b {
                    st.exclude("cookie-collision");
                    return Ok(());
                }
                vfail!("flows #{} and #{} of the case differ in one tuple component ({}:{} -> {}:{} vs {}:{} -> {}:{}) but got the same SYN cookie {:#010x}, and again the same under another key: a data segment acknowledging it is accepted on either", j, i, flows[j].net.cip, flows[j].sport, flows[j].net.sip, flows[j].dport, flows[i].net.cip, flows[i].sport, flows[i].net.sip, flows[i].dport, cookies[i]);
            }
        }
    }
    let mut validated = vec![false; n];
    let mut next_seq = vec![4243u32; n];
    let mut world = World::new(&sut, &c.scn.net, 50000, 7);
    let (mut rejected, mut accepted, mut unvalidated_frames, mut post_valid_wrong_ack, mut wraps) = (0, 0, 0u32, 0, 0);
    if mode.check_table {
        vensure!(Sut::tcb_len() == 0, "connection table not empty after SYN handshakes only: {}", Sut::tcb_len());
    }
    for (k, o) in c.ops.iter().enumerate() {
        let before = validated.iter().filter(|v| **v).count();
        match o {
            Op::Noise(s) => {
                let (f, out) = world.send(s);
                st.class(&format!("noise:{}", s.kind().split('/').next().unwrap_or("")));
                unvalidated_frames += 1;
                if let Out::Panic(p) = &out {
                    return Err(Failure::keyed(p.key(), format!("panic in noise step: {} {}", p.file, p.msg)));
                }
            }
            Op::Syn { f, flags, seq, pay } => {
                let fi = *f as usize % n;
                let pb = pay.as_ref().map(|p| p.bytes(true)).unwrap_or_default();
                if !pb.is_empty() {
                    st.class("op:syn-with-payload");
                }
                let fr = padded(tcp_frame(&flows[fi].net, &TcpH::new(flows[fi].sport, flows[fi].dport, *seq, 0, *flags), &pb));
                let out = sut.frame(&fr);
                st.class("op:syn");
                unvalidated_frames += 1;
                if let Out::Panic(p) = &out {
                    return Err(Failure::keyed(p.key(), format!("panic on SYN: {} {}", p.file, p.msg)));
                }
            }
            Op::Data { f, ack, seq, pay, extra, opt_words } => {
                let fi = *f as usize % n;
                let fl = &flows[fi];
                let cookie = cookies[fi];
                let ackno = ack.value(cookie, match ack { AckMode::OtherFlow(g) => cookies[*g as usize % n], _ => 0 });
                let p = pay.bytes(true);
                let sq = match seq {
                    SeqMode::Cont => next_seq[fi],
                    SeqMode::NearWrap(o) => 0u32.wrapping_sub(*o as u32),
                    SeqMode::Rand(r) => *r,
                };
                let mut h = TcpH::new(fl.sport, fl.dport, sq, ackno, F_PSH | F_ACK | *extra);
                if *opt_words > 0 {
                    h.options = vec![1u8; *opt_words as usize * 4];
                }
                let fr = padded(tcp_frame(&fl.net, &h, &p));
                let out = sut.frame(&fr);
                if let Out::Panic(pn) = &out {
                    return Err(Failure::keyed(pn.key(), format!("panic on data segment: {} {}", pn.file, pn.msg)));
                }
                let ack_ok = ackno == cookie.wrapping_add(1);
                let accept = validated[fi] || ack_ok;
                st.class(&format!("op:data:{}:{}", if validated[fi] { "validated-flow" } else { "fresh-flow" }, if ack_ok { "good-ack" } else { "wrong-ack" }));
                if (sq as u64) + (p.len() as u64) > 0xffff_ffff {
                    wraps += 1;
                    st.class("seq-wraps");
                }
                if !accept {
                    rejected += 1;
                    unvalidated_frames += 1;
                    if mode.check_replies {
                        if let Out::Reply(r) = &out {
                            vfail!("op #{}: data segment on an unvalidated flow with ack {:#x} (cookie {:#x}, expected cookie+1) was answered: {} -> {}", k, ackno, cookie, hex(&fr[..fr.len().min(160)]), hex(&r[..r.len().min(160)]));
                        }
                    }
                } else {
                    accepted += 1;
                    if validated[fi] && !ack_ok {
                        post_valid_wrong_ack += 1;
                    }
                    validated[fi] = true;
                    if matches!(seq, SeqMode::Cont) {
                        next_seq[fi] = sq.wrapping_add(p.len() as u32);
                    }
                    if mode.check_replies {
                        let r = match &out {
                            Out::Reply(r) => r,
                            _ => vfail!("op #{}: data segment with valid acknowledgement (or on a validated flow) not answered: {}", k, hex(&fr[..fr.len().min(160)])),
                        };
                        let d = decode_reply(r).map_err(Failure::new)?;
                        let t = match d.tcp() {
                            Some(t) => t,
                            None => vfail!("reply to a data segment is not TCP"),
                        };
                        vensure!(t.flags & F_ACK != 0, "reply to a data segment without ACK (flags {:#x})", t.flags);
                        let want_flags = if t.payload.is_empty() { F_ACK } else { F_ACK | F_PSH };
                        vensure!(t.flags == want_flags, "reply flags {:#x} with {} payload bytes (PSH must be set iff the reply carries data, nothing else)", t.flags, t.payload.len());
                        vensure!(t.seq == ackno, "reply sequence {:#x} is not the peer's acknowledgement number {:#x}", t.seq, ackno);
                        let want_ack = sq.wrapping_add(p.len() as u32);
                        vensure!(t.ack == want_ack, "reply acknowledges {:#x}, expected peer sequence {:#x} + payload length {} = {:#x} (mod 2^32)", t.ack, sq, p.len(), want_ack);
                    }
                }
            }
            Op::FinAck { f, seq, ack } => {
                let fi = *f as usize % n;
                let fr = padded(flows[fi].seg(*seq, *ack, F_FIN | F_ACK, &[]));
                let out = sut.frame(&fr);
                st.class("op:fin-ack");
                unvalidated_frames += 1;
                if mode.check_replies {
                    let r = match &out {
                        Out::Reply(r) => r,
                        other => vfail!("bare FIN|ACK not answered: {}", other.brief()),
                    };
                    let d = decode_reply(r).map_err(Failure::new)?;
                    let t = d.tcp().ok_or_else(|| Failure::new("reply to FIN|ACK is not TCP"))?;
                    vensure!(t.flags == F_FIN | F_ACK && t.payload.is_empty(), "reply to FIN|ACK has flags {:#x} and {} payload bytes", t.flags, t.payload.len());
                    vensure!(t.ack == seq.wrapping_add(1), "FIN|ACK reply acknowledges {:#x}, expected {:#x}", t.ack, seq.wrapping_add(1));
                    vensure!(t.seq == *ack, "FIN|ACK reply sequence {:#x} is not the peer's acknowledgement {:#x}", t.seq, ack);
                }
            }
            Op::Ack { f, seq, ack } => {
                let fi = *f as usize % n;
                let out = sut.frame(&flows[fi].seg(*seq, *ack, F_ACK, &[]));
                st.class("op:ack");
                unvalidated_frames += 1;
                if mode.check_replies {
                    if let Out::Reply(r) = &out {
                        vfail!("bare ACK answered: {}", hex(r));
                    }
                }
            }
            Op::Bare { f, flags, seq, ack } => {
                let fi = *f as usize % n;
                let cookie = cookies[fi];
                let ackno = ack.value(cookie, match ack { AckMode::OtherFlow(g) => cookies[*g as usize % n], _ => 0 });
                let out = sut.frame(&flows[fi].seg(*seq, ackno, *flags, &[]));
                st.class(&format!("op:bare:{}:{}", match *flags { x if x == F_ACK => "ack", x if x == F_RST => "rst", _ => "fin-ack" }, if ackno == cookie.wrapping_add(1) { "ack=cookie+1" } else { "other-ack" }));
                unvalidated_frames += 1;
                if let Out::Panic(p) = &out {
                    return Err(Failure::keyed(p.key(), format!("panic on bare segment: {} {}", p.file, p.msg)));
                }
                if mode.check_replies {
                    if *flags == (F_FIN | F_ACK) {
                        let r = match &out {
                            Out::Reply(r) => r,
                            other => vfail!("bare FIN|ACK not answered: {}", other.brief()),
                        };
                        let d = decode_reply(r).map_err(Failure::new)?;
                        let t = d.tcp().ok_or_else(|| Failure::new("reply to FIN|ACK is not TCP"))?;
                        vensure!(t.flags == F_FIN | F_ACK && t.payload.is_empty(), "reply to FIN|ACK has flags {:#x} and {} payload bytes", t.flags, t.payload.len());
                        vensure!(t.ack == seq.wrapping_add(1) && t.seq == ackno, "FIN|ACK reply seq {:#x} ack {:#x}, expected {:#x} / {:#x}", t.seq, t.ack, ackno, seq.wrapping_add(1));
                    } else if let Out::Reply(r) = &out {
                        vfail!("op #{}: bare {} with acknowledgement {:#x} (cookie {:#x}) answered: {}", k, if *flags == F_ACK { "ACK" } else { "RST" }, ackno, cookie, hex(r));
                    }
                }
            }
            Op::Odd { f, flags, seq, ack, pay } => {
                let fi = *f as usize % n;
                let cookie = cookies[fi];
                let ackno = ack.value(cookie, match ack { AckMode::OtherFlow(g) => cookies[*g as usize % n], _ => 0 });
                let pb = pay.as_ref().map(|p| p.bytes(true)).unwrap_or_default();
                let out = sut.frame(&padded(flows[fi].seg(*seq, ackno, *flags, &pb)));
                st.class(&format!("op:odd:{}:{}:{}", if *flags & F_PSH != 0 { "psh-without-ack" } else if *flags & F_ACK != 0 { "ack-without-psh" } else { "neither" }, if ackno == cookie.wrapping_add(1) { "ack-field=cookie+1" } else { "other-ack-field" }, if pb.is_empty() { "empty" } else { "payload" }));
                unvalidated_frames += 1;
                if let Out::Panic(p) = &out {
                    return Err(Failure::keyed(p.key(), format!("panic on a non-data segment: {} {}", p.file, p.msg)));
                }
                if mode.check_replies && (*flags == F_ACK || *flags == F_RST) && pb.is_empty() {
                    if let Out::Reply(r) = &out {
                        vfail!("op #{}: bare {} answered: {}", k, if *flags == F_ACK { "ACK" } else { "RST" }, hex(r));
                    }
                }
            }
            Op::IcmpErr { f, typ4, typ6, code } => {
                let fi = *f as usize % n;
                let fl = &flows[fi];
                let typ = if fl.net.is_v4() { *typ4 } else { *typ6 };
                let l4 = tcp_seg(&fl.net.sip, &fl.net.cip, &TcpH::new(fl.dport, fl.sport, cookies[fi], next_seq[fi], F_SYN | F_ACK), &[]);
                let out = sut.frame(&icmp_error_frame(&fl.net, typ, *code, P_TCP, &l4));
                st.class("op:icmp-error-quoting-the-flow");
                unvalidated_frames += 1;
                if let Out::Panic(p) = &out {
                    return Err(Failure::keyed(p.key(), format!("panic on ICMP error: {} {}", p.file, p.msg)));
                }
            }
            Op::Rst { f, seq } => {
                let fi = *f as usize % n;
                let out = sut.frame(&flows[fi].seg(*seq, 0, F_RST, &[]));
                st.class("op:rst");
                unvalidated_frames += 1;
                if mode.check_replies {
                    if let Out::Reply(r) = &out {
                        vfail!("bare RST answered: {}", hex(r));
                    }
                }
            }
        }
        if mode.check_table {
            let want = validated.iter().filter(|v| **v).count();
            let got = Sut::tcb_len();
            vensure!(got == want, "after op #{} ({}): connection table holds {} entries, the model says {} flows have presented a valid cookie (before this frame: {})", k, op_name(o), got, want, before);
        }
    }
    st.frames(c.ops.len() as u64 + world.sent);
    if mode.check_replies && rejected > 0 && accepted > 0 {
        st.nontrivial_hash(fnv(serde_json::to_string(c).unwrap_or_default().as_bytes()));
        st.sample(|| json!({"flows": n, "ops": c.ops.iter().map(op_name).collect::<Vec<_>>(), "rejected": rejected, "accepted": accepted}));
    }
    if mode.check_table && unvalidated_frames >= 20 && validated.iter().any(|v| *v) {
        st.nontrivial_hash(fnv(serde_json::to_string(c).unwrap_or_default().as_bytes()));
        st.sample(|| json!({"ops": c.ops.len(), "unvalidated_frames": unvalidated_frames, "validated_flows": validated.iter().filter(|v| **v).count(), "table_len_at_end": Sut::tcb_len()}));
    }
    if post_valid_wrong_ack > 0 {
        st.class("post-validation-wrong-ack-accepted");
    }
    st.class(&format!("flows:{}", n));
    Ok(())
}

fn op_name(o: &Op) -> String {
    match o {
        Op::Syn { f, flags, pay, .. } => format!("syn(f{},{:#x},{}B)", f, flags, pay.as_ref().map(|p| p.bytes(true).len()).unwrap_or(0)),
        Op::Data { f, ack, pay, extra, .. } => format!("data(f{},{:?},{}B,extra={:#x})", f, ack, pay.bytes(true).len(), extra),
        Op::FinAck { f, .. } => format!("fin-ack(f{})", f),
        Op::Ack { f, .. } => format!("ack(f{})", f),
        Op::Rst { f, .. } => format!("rst(f{})", f),
        Op::IcmpErr { f, typ4, typ6, code } => format!("icmp-error(f{},type {}/{},code {})", f, typ4, typ6, code),
        Op::Bare { f, flags, ack, .. } => format!("bare(f{},{:#x},{:?})", f, flags, ack),
        Op::Odd { f, flags, ack, pay, .. } => format!("odd(f{},{:#x},{:?},{}B)", f, flags, ack, pay.as_ref().map(|p| p.bytes(true).len()).unwrap_or(0)),
        Op::Noise(s) => format!("noise({})", s.kind()),
    }
}

// ---------------------------------------------------------------------------------------
// directed: the `ack == 0` / cookie == 0xFFFFFFFF "underflow hack" branch

#[derive(Clone, Debug, Serialize, Deserialize, PartialEq)]
pub struct Underflow {
    pub key: [u64; 2],
    pub cip: [u8; 4],
    pub sip: [u8; 4],
    pub sport: u16,
    pub dport: u16,
}

/// search tuples whose cookie is 0xFFFFFFFF by calling the responder's own cookie function
/// (used only to *find* inputs; the oracle below learns the cookie from the SYN-ACK)
pub fn search_underflow(key: [u64; 2], start: u64, count: u64) -> Option<Underflow> {
    use crate::client::ClientInfo;
    let mut ci = ClientInfo::new();
    let sip = [10, 9, 8, 7];
    ci.ip.dst = Some(IpAddr::V4(Ipv4Addr::from(sip)));
    for i in start..start + count {
        let cip = [100 + ((i >> 40) & 0x3f) as u8, (i >> 32) as u8, 1, 1];
        let sport = (i >> 16) as u16;
        let dport = i as u16;
        ci.ip.src = Some(IpAddr::V4(Ipv4Addr::from(cip)));
        ci.port.src = Some(sport);
        ci.port.dst = Some(dport);
        if let Ok(0xFFFF_FFFF) = crate::synackcookie::generate(&ci, &key) {
            return Some(Underflow { key, cip, sip, sport, dport });
        }
    }
    None
}

pub fn underflow_check(u: &Underflow, st: &mut Stats) -> Check {
    Sut::reset();
    st.eval();
    let mac = [0x02, 0x10, 0x20, 0x30, 0x40, 0x50];
    let mut cfg = Cfg::plain(mac);
    cfg.key = u.key;
    let sut = Sut::new(&cfg);
    let net = Net { cmac: [2, 0, 0, 0, 0, 1], dmac: mac, cip: IpAddr::V4(Ipv4Addr::from(u.cip)), sip: IpAddr::V4(Ipv4Addr::from(u.sip)) };
    let flow = Flow { net, sport: u.sport, dport: u.dport };
    let k = learn_cookie(&sut, &flow, 5).map_err(Failure::new)?;
    if k != 0xFFFF_FFFF {
        st.class("underflow:tuple-no-longer-hits-0xffffffff(skipped)");
        return Ok(());
    }
    st.class("underflow:cookie=0xffffffff");
    st.frames(3);
    // ack = cookie + 1 = 0 (mod 2^32) must be accepted; ack = 0xffffffff (= cookie) must not
    let o = sut.frame(&flow.data(6, 0xFFFF_FFFF, b"x"));
    if let Out::Reply(r) = &o {
        vfail!("cookie 0xffffffff: data with ack = cookie (0xffffffff) was answered: {}", hex(r));
    }
    if let Out::Panic(p) = &o {
        return Err(Failure::keyed(p.key(), format!("panic: {} {}", p.file, p.msg)));
    }
    let o = sut.frame(&flow.data(6, 0, b"x"));
    match &o {
        Out::Reply(r) => {
            let d = decode_reply(r).map_err(Failure::new)?;
            let t = d.tcp().ok_or_else(|| Failure::new("not TCP"))?;
            vensure!(t.seq == 0 && t.ack == 7, "cookie 0xffffffff: reply seq {:#x} ack {:#x}, expected 0 and 7", t.seq, t.ack);
            st.nontrivial(&(u.cip, u.sport, u.dport));
            st.sample(|| json!({"underflow_tuple": format!("{:?}:{} -> {:?}:{}", u.cip, u.sport, u.sip, u.dport), "key": u.key}));
            Ok(())
        }
        Out::Panic(p) => Err(Failure::keyed(p.key(), format!("panic on ack=0: {} {}", p.file, p.msg))),
        Out::Silence => vfail!("cookie 0xffffffff: data segment with ack = cookie+1 = 0 (mod 2^32) not answered"),
    }
}

fn committed_underflow() -> Option<Underflow> {
    let p = std::path::Path::new(&std::env::var("VERIF_DIR").unwrap_or("/verif".into())).join("seeds").join("c07_underflow_tuple.json");
    std::fs::read_to_string(p).ok().and_then(|t| serde_json::from_str(&t).ok())
}

impl Prop for C07 {
    fn id(&self) -> &'static str {
        "C07"
    }
    fn rule(&self) -> &'static str {
        "stateful, model-based: 2..4 flows that differ in exactly one tuple component (source port, source address, destination port), cookies learned from the responder's SYN-ACKs; histories of 1..24 ops: SYN with any flag set, data segments (PSH|ACK plus optional URG/FIN/SYN/RST/ECE/CWR/NS) with ack in {cookie+1, cookie, cookie+2, 0, 2^32-1, random, another flow's cookie+1, near misses cookie+1±d for d in 1..16 / 17..4096 / 4097..70000}, seq continuing / within 2 KiB of the wrap / random, payload 0..1400 bytes (garbage, protocol requests, request prefixes), TCP options; bare FIN|ACK, ACK, RST; bare ACK / RST / FIN|ACK whose ack is cookie-related (the handshake-completing ACK), SYNs carrying payload, unrelated noise (ARP/ICMP incl. ICMP errors quoting the responder's packets/UDP/raw/lying headers). Reference model: validated set; unvalidated flow and ack != cookie+1 => silence; otherwise exactly one reply with flags ACK (+PSH iff payload), seq = peer ack, ack = peer seq + payload length mod 2^32; FIN|ACK -> FIN|ACK ack seq+1; bare ACK/RST -> silence. Directed: a tuple whose cookie is 0xFFFFFFFF (ack = 0 branch), committed for quick and re-validated against the SYN-ACK, searched over 2^32 tuples in thorough. Non-trivial = the history holds both a rejected data segment on an unvalidated flow and an accepted one; distinct by case hash. Shadow traffic (vf/shadow.rs): three cases in ten process, before every frame of the case, a sibling of that frame whose result is discarded — the same frame again, or one tuple element (source / destination port, source / destination address, source MAC), one payload bit or the payload length changed; TCP conversations are shadowed whole on a sibling flow validated with its own cookie; sound by the statement of C08, cases whose own flows meet a shadow tuple are excluded and counted. A quarter of the cases put an Ethernet trailer (1..200 bytes behind the end of the IP packet) on every TCP frame of their own flows; `odd` segments (any flags without SYN and without PSH+ACK together, with or without payload, acknowledgement field related to the cookie) must create no state."
    }
    fn run(&self, ctx: &mut RunCtx) {
        let n = ctx.share(ctx.tier.n(1_000_000, 10_000_000));
        let mode = Mode { check_replies: true, check_table: false };
        ctx.run_generated("model", n, case_strategy(24, 4, 2, 1), |c, st| run_case(c, st, &mode));
        // directed underflow branch
        if ctx.worker == 0 {
            if let Some(u) = committed_underflow() {
                let r = underflow_check(&u, ctx.st);
                ctx.run_one("underflow", &u, r);
            } else {
                ctx.st.class("underflow:no-committed-tuple");
            }
        }
        if ctx.tier == Tier::Thorough {
            let key = [ctx.seed ^ 0x1111, ctx.seed.rotate_left(17) ^ 0x2222];
            let span: u64 = (1u64 << 33) / ctx.nworkers as u64;
            if let Some(u) = search_underflow(key, span * ctx.worker as u64, span) {
                let r = underflow_check(&u, ctx.st);
                ctx.run_one("underflow", &u, r);
            } else {
                ctx.st.class("underflow:search-exhausted-slice");
            }
        }
    }
    fn replay(&self, stream: &str, case: &Value, st: &mut Stats) -> Check {
        let bad = |e: serde_json::Error| Failure::new(format!("bad case: {}", e));
        match stream {
            "underflow" => underflow_check(&serde_json::from_value(case.clone()).map_err(bad)?, st),
            _ => run_case(&serde_json::from_value(case.clone()).map_err(bad)?, st, &Mode { check_replies: true, check_table: false }),
        }
    }
}

// ---------------------------------------------------------------------------------------
// C09

#[derive(Clone, Debug, Serialize, Deserialize, PartialEq)]
pub struct Flood {
    pub scn: Scenario,
    pub n: u32,
    pub salt: u32,
}

fn flood_check(fl: &Flood, st: &mut Stats) -> Check {
    Sut::reset();
    st.eval();
    let sut = Sut::new(&fl.scn.cfg);
    let net = &fl.scn.net;
    // one validated flow first, then a flood of unvalidated traffic from many tuples
    let vf = Flow { net: net.clone(), sport: 1, dport: 1 };
    let _ = deliver(&sut, &vf, 1, b"hello", &[5]).map_err(Failure::new)?;
    vensure!(Sut::tcb_len() == 1, "one validated flow but table size {}", Sut::tcb_len());
    let mut x = fl.salt as u64 | 1;
    for i in 0..fl.n {
        x = x.wrapping_mul(6364136223846793005).wrapping_add(1442695040888963407);
        let sport = (x >> 16) as u16;
        let dport = (x >> 32) as u16;
        let f = Flow { net: net.clone(), sport, dport };
        if f.sport == 1 && f.dport == 1 {
            continue;
        }
        let fr = match (x >> 48) % 6 {
            0 | 1 => f.syn(x as u32),
            2 => f.data(x as u32, (x >> 8) as u32, b"GET / HTTP/1.1\r\n\r\n"),
            3 => f.seg(x as u32, (x >> 8) as u32, F_FIN | F_ACK, &[]),
            4 => f.seg(x as u32, 0, F_SYN | F_PSH | F_URG, b"abc"),
            _ => udp_frame(net, sport, dport, b"\x00\x01\x00\x00aaaaaaaaaaaaaaaa"),
        };
        let o = sut.frame(&fr);
        if let Out::Panic(p) = &o {
            return Err(Failure::keyed(p.key(), format!("panic in flood: {} {}", p.file, p.msg)));
        }
        if i % 1024 == 0 || i + 1 == fl.n {
            // a random 32-bit ack hits cookie+1 with probability 2^-32 per data segment: ignored
            let l = Sut::tcb_len();
            vensure!(l == 1, "after {} unvalidated frames the connection table holds {} entries (expected 1)", i + 1, l);
        }
    }
    st.frames(fl.n as u64 + 2);
    st.class("flood");
    st.nontrivial(&(fl.n, fl.salt));
    st.sample(|| json!({"flood_frames": fl.n, "table_len": Sut::tcb_len()}));
    Ok(())
}

/// many VALIDATED flows: the table holds exactly one entry per flow (per distinct cookie: two
/// tuples with equal 32-bit cookies share an entry, which is C08's listed finding)
#[derive(Clone, Debug, Serialize, Deserialize, PartialEq)]
pub struct Crowd {
    pub scn: Scenario,
    pub n: u32,
    pub salt: u16,
}

fn crowd_check(c: &Crowd, st: &mut Stats) -> Check {
    Sut::reset();
    st.eval();
    let sut = Sut::new(&c.scn.cfg);
    let net = &c.scn.net;
    let mut cookies = std::collections::HashSet::new();
    for i in 0..c.n {
        let f = Flow { net: net.clone(), sport: (i as u16) ^ c.salt, dport: 2000u16.wrapping_add((i >> 16) as u16) };
        let k = learn_cookie(&sut, &f, i).map_err(Failure::new)?;
        cookies.insert(k);
        let o = sut.frame(&f.data(i.wrapping_add(1), k.wrapping_add(1), b"x"));
        if let Out::Panic(p) = &o {
            return Err(Failure::keyed(p.key(), format!("panic with {} connections: {} {}", i, p.file, p.msg)));
        }
        if i % 4096 == 0 || i + 1 == c.n || (i >= 65530 && i <= 65540) {
            let l = Sut::tcb_len();
            vensure!(l == cookies.len(), "after {} validated flows ({} distinct cookies) the connection table holds {} entries", i + 1, cookies.len(), l);
        }
    }
    st.frames(2 * c.n as u64);
    st.class("crowd-of-validated-flows");
    st.nontrivial(&(c.n, c.salt));
    st.sample(|| json!({"validated_flows": c.n, "distinct_cookies": cookies.len(), "table_len": Sut::tcb_len()}));
    Ok(())
}

impl Prop for C09 {
    fn id(&self) -> &'static str {
        "C09"
    }
    fn rule(&self) -> &'static str {
        "stateful: histories of 1..200 ops over 2..4 flows — SYN with all flag sets, data segments with wrong acknowledgement numbers (cookie, cookie+2, 0, 2^32-1, random, another flow's cookie+1, near misses cookie+1±d up to 70000), bare FIN|ACK / ACK / RST, UDP / ICMP / ARP / raw / lying-header noise, interleaved with a few valid data segments and repeated valid data on validated flows — plus floods of 10^4 (quick) / 10^5 (thorough) unvalidated frames from pseudo-random tuples next to one validated flow, and crowds of 70 000 (quick) / 200 000 (thorough) VALIDATED flows (table size = number of distinct cookies, checked every 4096 flows and around 65536). Oracle: after EVERY frame the size of the connection table (hook verif_tcb_len) equals the number of flows that have sent a data segment acknowledging cookie+1 according to the reference model. Non-trivial = at least 20 unvalidated frames and at least one validated flow in the history; distinct by case hash."
    }
    fn run(&self, ctx: &mut RunCtx) {
        let n = ctx.share(ctx.tier.n(150_000, 1_200_000));
        let mode = Mode { check_replies: false, check_table: true };
        ctx.run_generated("table", n, case_strategy(200, 1, 4, 3), |c, st| run_case(c, st, &mode));
        let nf = ctx.share(ctx.tier.n(32, 160));
        let size = ctx.tier.n(10_000, 100_000) as u32;
        ctx.run_generated("flood", nf, (scenario_quiet(Fam::Any), Just(size), any::<u32>()).prop_map(|(scn, n, salt)| Flood { scn, n, salt }), flood_check);
        // more validated flows than fit a 16-bit counter
        let nc = ctx.share(ctx.tier.n(2, 32));
        let csize = ctx.tier.n(70_000, 200_000) as u32;
        ctx.run_generated("crowd", nc, (scenario_quiet(Fam::Any), Just(csize), any::<u16>()).prop_map(|(scn, n, salt)| Crowd { scn, n, salt }), crowd_check);
    }
    fn replay(&self, stream: &str, case: &Value, st: &mut Stats) -> Check {
        let bad = |e: serde_json::Error| Failure::new(format!("bad case: {}", e));
        match stream {
            "flood" => flood_check(&serde_json::from_value(case.clone()).map_err(bad)?, st),
            "crowd" => crowd_check(&serde_json::from_value(case.clone()).map_err(bad)?, st),
            _ => run_case(&serde_json::from_value(case.clone()).map_err(bad)?, st, &Mode { check_replies: false, check_table: true }),
        }
    }
}
