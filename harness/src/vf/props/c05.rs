// C05 — ARP, neighbour discovery and echo are answered correctly, and only those.

use crate::vf::shadow::{shadow_opt, with_shadow, Shadow};
use proptest::collection::vec;
use proptest::prelude::*;
use serde::{Deserialize, Serialize};
use serde_json::{json, Value};
use std::net::{IpAddr, Ipv4Addr, Ipv6Addr};

use crate::vf::answerable::ndp_opts_wf;
use crate::vf::codec::*;
use crate::vf::engine::*;
use crate::vf::gen::*;
use crate::vf::sut::*;
use crate::vf::util::*;

pub struct C05;

#[derive(Clone, Debug, Serialize, Deserialize, PartialEq)]
pub enum Msg {
    /// well-formed Ethernet/IPv4 ARP header, arbitrary operation; target = server address or other
    Arp { op: u16, sha: [u8; 6], tha: [u8; 6], other_target: Option<[u8; 4]>, pad: u8,
          /// sender protocol address: 0 = the client's, 1 = equal to the target (announcement-style
          /// request), 2 = 0.0.0.0 (probe)
          #[serde(default)]
          spa_mode: u8 },
    /// arbitrary htype/ptype/hlen/plen (only: no crash, and operations other than 1 get nothing)
    ArpOdd { m: ArpM, pad: u8 },
    Icmp { typ: u8, code: u8, rest: Hex, pad: u8 },
    /// neighbour solicitation with well-formed options; target = server address or other
    Ns { code: u8, reserved: [u8; 4], other_target: Option<[u8; 16]>, opts: Hex, unicast: bool },
}

#[derive(Clone, Debug, Serialize, Deserialize, PartialEq)]
pub struct Case {
    pub scn: Scenario,
    pub msg: Msg,
    /// IPv4 header options on the ICMP message (ignored over IPv6 and for ARP)
    #[serde(default)]
    pub ip4_opts: Hex,
    /// IP header fields the responder is not documented to look at
    #[serde(default)]
    pub ip_tweak: Option<IpTweak>,
    /// sibling traffic sent before every frame of the case (vf/shadow.rs)
    #[serde(default)]
    pub shadow: Option<Shadow>,
}

fn op_strategy() -> impl Strategy<Value = u16> {
    prop_oneof![4 => Just(1u16), 2 => 0u16..=4, 1 => 8u16..=10, 1 => Just(0x0100u16), 2 => any::<u16>()]
}

fn icmp_type(v4: bool) -> BoxedStrategy<u8> {
    if v4 {
        prop_oneof![4 => Just(8u8), 1 => Just(0u8), 1 => prop::sample::select(vec![3u8, 5, 9, 10, 11, 13, 15, 17, 7, 128]), 2 => any::<u8>()].boxed()
    } else {
        prop_oneof![4 => Just(128u8), 1 => Just(129u8), 1 => prop::sample::select(vec![1u8, 2, 3, 4, 127, 130, 133, 134, 136, 137, 8]), 2 => any::<u8>()].boxed()
    }
}

fn rest() -> impl Strategy<Value = Hex> {
    prop_oneof![
        5 => vec(any::<u8>(), 0..72).prop_map(Hex),
        2 => (0usize..=1476, any::<u8>()).prop_map(|(n, b)| Hex((0..n).map(|i| b.wrapping_add((i * 3) as u8)).collect())),
    ]
}

pub fn case_strategy() -> impl Strategy<Value = Case> {
    (case_strategy0(), shadow_opt()).prop_map(|(mut c, sh)| {
        c.shadow = sh;
        c
    })
}

fn case_strategy0() -> impl Strategy<Value = Case> {
    // built once per family (building strategies is not free) and cloned per case
    let build = |v4: bool| -> BoxedStrategy<Msg> {
        let icmp = (icmp_type(v4), prop_oneof![5 => Just(0u8), 1 => Just(1u8), 1 => Just(255u8), 1 => any::<u8>()], rest(), prop_oneof![4 => Just(0u8), 1 => 1u8..20]).prop_map(|(typ, code, rest, pad)| Msg::Icmp { typ, code, rest, pad });
        let l2: BoxedStrategy<Msg> = if v4 {
            prop_oneof![
                5 => (op_strategy(), any::<[u8; 6]>(), prop_oneof![1 => Just([0u8; 6]), 1 => any::<[u8; 6]>(), 1 => Just([0xffu8; 6])], prop::option::weighted(0.3, any::<[u8; 4]>()), 0u8..19, prop_oneof![4 => Just(0u8), 1 => Just(1u8), 1 => Just(2u8)]).prop_map(|(op, sha, tha, other_target, pad, spa_mode)| Msg::Arp { op, sha, tha, other_target, pad, spa_mode }),
                1 => (any::<(u16, u16, u8, u8)>(), op_strategy(), any::<([u8; 6], [u8; 4], [u8; 6], [u8; 4])>(), 0u8..19).prop_map(|((htype, ptype, hlen, plen), op, (sha, spa, tha, tpa), pad)| Msg::ArpOdd { m: ArpM { htype, ptype, hlen, plen, op, sha, spa, tha, tpa }, pad }),
            ]
            .boxed()
        } else {
            (prop_oneof![6 => Just(0u8), 1 => any::<u8>()], any::<[u8; 4]>(), prop::option::weighted(0.3, any::<[u8; 16]>()), ndp_opts_wf(), any::<bool>()).prop_map(|(code, reserved, other_target, opts, unicast)| Msg::Ns { code, reserved, other_target, opts, unicast }).boxed()
        };
        prop_oneof![1 => l2, 1 => icmp].boxed()
    };
    let (m4, m6) = (build(true), build(false));
    let opts = crate::vf::answerable::ip4_options().boxed();
    let tw = prop::option::weighted(0.25, crate::vf::props::c03::ip_tweak()).boxed();
    scenario_quiet(Fam::Any).prop_flat_map(move |scn| {
        let m = if scn.net.is_v4() { m4.clone() } else { m6.clone() };
        (Just(scn), m, opts.clone(), tw.clone()).prop_map(|(scn, msg, ip4_opts, ip_tweak)| Case { shadow: None, scn, msg, ip4_opts, ip_tweak })
    })
}

fn v4o(ip: &IpAddr) -> [u8; 4] {
    match ip {
        IpAddr::V4(a) => a.octets(),
        _ => [0; 4],
    }
}
fn v6o(ip: &IpAddr) -> [u8; 16] {
    match ip {
        IpAddr::V6(a) => a.octets(),
        _ => [0; 16],
    }
}

pub fn check(c: &Case, st: &mut Stats) -> Check {
    with_shadow(&c.shadow, st, |st| check0(c, st))
}

fn check0(c: &Case, st: &mut Stats) -> Check {
    Sut::reset();
    st.eval();
    st.frames(1);
    let cfg = &c.scn.cfg;
    let net = &c.scn.net;
    let sut = Sut::new(cfg);
    match &c.msg {
        Msg::Arp { op, sha, tha, other_target, pad, spa_mode } => {
            let tpa = other_target.unwrap_or(v4o(&net.sip));
            let spa = match spa_mode { 1 => tpa, 2 => [0, 0, 0, 0], _ => v4o(&net.cip) };
            if *spa_mode != 0 {
                st.class(if *spa_mode == 1 { "arp:sender-ip=target-ip" } else { "arp:sender-ip=0.0.0.0" });
            }
            let m = ArpM { htype: 1, ptype: 0x0800, hlen: 6, plen: 4, op: *op, sha: *sha, spa, tha: *tha, tpa };
            let mut p = arp(&m);
            p.extend(std::iter::repeat(0u8).take(*pad as usize));
            let f = eth(&net.dmac, &net.cmac, ET_ARP, &p);
            let handled = cfg.in_self(&IpAddr::V4(Ipv4Addr::from(tpa)));
            let expect = *op == 1 && handled;
            let o = sut.frame(&f);
            st.class(&format!("arp:op={}:{}", match *op { 1 => "1", 2 => "2", 0 | 3 | 4 => "near", _ => "other" }, if handled { "handled" } else { "not-handled" }));
            if expect || (*op <= 3) {
                st.nontrivial_hash(fnv(&f));
            }
            match (&o, expect) {
                (Out::Panic(p), _) => Err(Failure::keyed(p.key(), format!("panic: {} {}", p.file, p.msg))),
                (Out::Silence, false) => Ok(()),
                (Out::Silence, true) => vfail!("ARP request for handled address {:?} not answered: {}", tpa, hex(&f)),
                (Out::Reply(r), false) => vfail!("ARP message with operation {} for {} address answered: {} -> {}", op, if handled { "a handled" } else { "an unhandled" }, hex(&f), hex(r)),
                (Out::Reply(r), true) => {
                    st.sample(|| json!({"arp_request": hex(&f), "reply": hex(r)}));
                    let d = decode_reply(r).map_err(Failure::new)?;
                    let a = match &d.l3 {
                        L3D::Arp(a, _) => a,
                        _ => vfail!("reply to an ARP request is not ARP: {}", hex(r)),
                    };
                    vensure!(a.op == 2, "ARP reply operation {}", a.op);
                    vensure!(a.htype == 1 && a.ptype == 0x0800 && a.hlen == 6 && a.plen == 4, "ARP reply is not Ethernet/IPv4: htype {} ptype {:#x} hlen {} plen {}", a.htype, a.ptype, a.hlen, a.plen);
                    vensure!(a.sha == cfg.mac && a.spa == tpa, "ARP reply sender ({}, {:?}) is not (configured MAC {}, requested address {:?})", hex(&a.sha), a.spa, hex(&cfg.mac), tpa);
                    vensure!(a.tha == *sha && a.tpa == spa, "ARP reply target ({}, {:?}) is not the requester's pair ({}, {:?})", hex(&a.tha), a.tpa, hex(sha), spa);
                    Ok(())
                }
            }
        }
        Msg::ArpOdd { m, pad } => {
            let mut p = arp(m);
            p.extend(std::iter::repeat(0u8).take(*pad as usize));
            let f = eth(&net.dmac, &net.cmac, ET_ARP, &p);
            let o = sut.frame(&f);
            st.class("arp:odd-header");
            match o {
                Out::Panic(p) => Err(Failure::keyed(p.key(), format!("panic: {} {}", p.file, p.msg))),
                Out::Reply(r) if m.op != 1 => vfail!("ARP message with operation {} answered: {} -> {}", m.op, hex(&f), hex(&r)),
                _ => Ok(()),
            }
        }
        Msg::Icmp { typ, code, rest, pad } => {
            let v4 = net.is_v4();
            let mut f = if v4 { ip_frame(net, P_ICMP, &icmp4(*typ, *code, rest)) } else { ip_frame(net, P_ICMP6, &icmp6(&net.cip, &net.sip, *typ, *code, rest)) };
            if !c.ip4_opts.is_empty() {
                if let Some(f2) = insert_options(&f, &c.ip4_opts, &[]) {
                    f = f2;
                    st.class("icmp4:request-with-ip-options");
                }
            }
            if let Some(t) = &c.ip_tweak {
                apply_ip_tweak(&mut f, t);
            }
            f.extend(std::iter::repeat(0xaau8).take(*pad as usize));
            let echo_t = if v4 { 8 } else { 128 };
            let repl_t = if v4 { 0 } else { 129 };
            // ICMPv6 135 is handled by the Ns message kind (here: only with code != 0 or too short)
            let is_ns = !v4 && *typ == 135;
            let expect = *typ == echo_t && *code == 0;
            let near = *typ == echo_t || (*code == 0 && (*typ == repl_t || typ.wrapping_sub(echo_t) <= 1 || echo_t.wrapping_sub(*typ) <= 1));
            st.class(&format!("icmp{}:{}", if v4 { 4 } else { 6 }, if expect { "echo-request" } else if *typ == echo_t { "echo-nonzero-code" } else if *typ == repl_t { "echo-reply" } else { "other-type" }));
            if expect || near {
                st.nontrivial_hash(fnv(&f));
            }
            let o = sut.frame(&f);
            if is_ns && *code == 0 {
                // a code-0 NS inside the generic generator: body may or may not hold a target; not asserted here
                return match o {
                    Out::Panic(p) => Err(Failure::keyed(p.key(), format!("panic: {} {}", p.file, p.msg))),
                    _ => Ok(()),
                };
            }
            match (&o, expect) {
                (Out::Panic(p), _) => Err(Failure::keyed(p.key(), format!("panic: {} {}", p.file, p.msg))),
                (Out::Silence, false) => Ok(()),
                (Out::Silence, true) => vfail!("code-0 echo request not answered: {}", hex(&f[..f.len().min(200)])),
                (Out::Reply(r), false) => vfail!("ICMP{} type {} code {} answered: {} -> {}", if v4 { "v4" } else { "v6" }, typ, code, hex(&f[..f.len().min(200)]), hex(&r[..r.len().min(200)])),
                (Out::Reply(r), true) => {
                    st.sample(|| json!({"echo_request": hex(&f[..f.len().min(120)]), "reply": hex(&r[..r.len().min(120)])}));
                    let d = decode_reply(r).map_err(Failure::new)?;
                    let (t, cd, rr) = match d.ip().map(|i| &i.l4) {
                        Some(L4D::Icmp { typ, code, rest }) if v4 => (*typ, *code, rest),
                        Some(L4D::Icmp6 { typ, code, rest }) if !v4 => (*typ, *code, rest),
                        _ => vfail!("reply to an echo request is not ICMP: {}", hex(&r[..r.len().min(200)])),
                    };
                    vensure!(t == repl_t && cd == 0, "echo reply has type {} code {}", t, cd);
                    vensure!(rr == &rest.0, "echo reply identifier/sequence/data differ from the request's: sent {} bytes {}, got {} bytes {}", rest.len(), hex(&rest[..rest.len().min(64)]), rr.len(), hex(&rr[..rr.len().min(64)]));
                    Ok(())
                }
            }
        }
        Msg::Ns { code, reserved, other_target, opts, unicast } => {
            let target = other_target.unwrap_or(v6o(&net.sip));
            let mut n = net.clone();
            if !*unicast {
                let mut g = [0u8; 16];
                g[0] = 0xff;
                g[1] = 0x02;
                g[11] = 1;
                g[12] = 0xff;
                g[13..].copy_from_slice(&target[13..]);
                n.sip = IpAddr::V6(Ipv6Addr::from(g));
            }
            let mut body = reserved.to_vec();
            body.extend_from_slice(&target);
            body.extend_from_slice(opts);
            let f = ip_frame(&n, P_ICMP6, &icmp6(&n.cip, &n.sip, 135, *code, &body));
            let handled = cfg.in_self(&IpAddr::V6(Ipv6Addr::from(target)));
            let expect = *code == 0 && handled;
            st.class(&format!("ns:{}:{}:{}", if *code == 0 { "code0" } else { "nonzero-code" }, if handled { "handled" } else { "not-handled" }, if *unicast { "unicast" } else { "solicited-node" }));
            st.nontrivial_hash(fnv(&f));
            let o = sut.frame(&f);
            match (&o, expect) {
                (Out::Panic(p), _) => Err(Failure::keyed(p.key(), format!("panic: {} {}", p.file, p.msg))),
                (Out::Silence, false) => Ok(()),
                (Out::Silence, true) => vfail!("neighbour solicitation for handled target not answered: {}", hex(&f)),
                (Out::Reply(r), false) => vfail!("neighbour solicitation (code {}, target {}) answered: {} -> {}", code, if handled { "handled" } else { "not handled" }, hex(&f), hex(r)),
                (Out::Reply(r), true) => {
                    st.sample(|| json!({"neighbour_solicitation": hex(&f), "reply": hex(r)}));
                    let d = decode_reply(r).map_err(Failure::new)?;
                    let rest = match d.ip().map(|i| &i.l4) {
                        Some(L4D::Icmp6 { typ: 136, code: 0, rest }) => rest,
                        _ => vfail!("reply to a neighbour solicitation is not a code-0 neighbour advertisement: {}", hex(r)),
                    };
                    vensure!(rest.len() >= 20, "neighbour advertisement too short");
                    vensure!(rest[0] & 0x40 != 0, "neighbour advertisement without the Solicited flag (flags {:#04x})", rest[0]);
                    vensure!(rest[0] & 0x20 != 0, "neighbour advertisement without the Override flag (flags {:#04x})", rest[0]);
                    vensure!(rest[4..20] == target, "neighbour advertisement target {} is not the solicited target {}", hex(&rest[4..20]), hex(&target));
                    // options: must contain Target Link-Layer Address (type 2, length 1) = configured MAC
                    let mut o = &rest[20..];
                    let mut found = false;
                    while o.len() >= 2 {
                        let l = o[1] as usize * 8;
                        vensure!(l != 0 && l <= o.len(), "neighbour advertisement with a malformed option (type {} length {})", o[0], o[1]);
                        if o[0] == 2 && o[1] == 1 {
                            vensure!(o[2..8] == cfg.mac, "Target Link-Layer Address option holds {} instead of the configured MAC {}", hex(&o[2..8]), hex(&cfg.mac));
                            found = true;
                        }
                        o = &o[l..];
                    }
                    vensure!(o.is_empty(), "trailing bytes after neighbour advertisement options");
                    vensure!(found, "neighbour advertisement without a Target Link-Layer Address option");
                    Ok(())
                }
            }
        }
    }
}

#[derive(Clone, Debug, Serialize, Deserialize)]
pub struct Grid {
    pub v4: bool,
    pub typ: u8,
    pub code: u8,
    /// number of bytes after the 4-byte ICMP header
    #[serde(default)]
    pub body_len: u8,
}

fn grid_check(g: &Grid, st: &mut Stats) -> Check {
    let mac = [0x02, 0xaa, 0xbb, 0xcc, 0xdd, 0xee];
    let cfg = Cfg::plain(mac);
    let net = if g.v4 {
        Net { cmac: [2, 0, 0, 0, 0, 5], dmac: mac, cip: IpAddr::V4(Ipv4Addr::new(192, 0, 2, 1)), sip: IpAddr::V4(Ipv4Addr::new(192, 0, 2, 200)) }
    } else {
        Net { cmac: [2, 0, 0, 0, 0, 5], dmac: mac, cip: IpAddr::V6(Ipv6Addr::new(0xfe80, 0, 0, 0, 0, 0, 0, 1)), sip: IpAddr::V6(Ipv6Addr::new(0xfe80, 0, 0, 0, 0, 0, 0, 2)) }
    };
    // body long enough to be a valid NS (reserved + target) so that type 135 is decided too
    let mut body = vec![0u8; 4];
    body.extend_from_slice(&v6o(&net.sip));
    if g.v4 {
        body = vec![0x12, 0x34, 0x00, 0x01, b'x', b'y'];
    }
    if g.body_len != 0 {
        // v6: keep reserved + target in front so that type 135 stays a valid solicitation
        let keep = if g.v4 { 0 } else { 20 };
        body.resize((keep).max(g.body_len as usize), 0x5a);
        if g.v4 { body.truncate(g.body_len as usize); }
    }
    let f = if g.v4 { ip_frame(&net, P_ICMP, &icmp4(g.typ, g.code, &body)) } else { ip_frame(&net, P_ICMP6, &icmp6(&net.cip, &net.sip, g.typ, g.code, &body)) };
    st.eval();
    st.frames(1);
    let answered_type = if g.v4 { g.typ == 8 } else { g.typ == 128 || g.typ == 135 };
    let expect = answered_type && g.code == 0;
    if answered_type || g.code == 0 {
        st.nontrivial_hash(fnv(&f));
    }
    match (Sut::new(&cfg).frame(&f), expect) {
        (Out::Panic(p), _) => Err(Failure::keyed(p.key(), format!("panic: {} {}", p.file, p.msg))),
        (Out::Silence, false) | (Out::Reply(_), true) => Ok(()),
        (Out::Silence, true) => vfail!("ICMP{} type {} code 0 not answered", if g.v4 { "v4" } else { "v6" }, g.typ),
        (Out::Reply(r), false) => vfail!("ICMP{} type {} code {} answered: {}", if g.v4 { "v4" } else { "v6" }, g.typ, g.code, hex(&r)),
    }
}

impl Prop for C05 {
    fn id(&self) -> &'static str {
        "C05"
    }
    fn rule(&self) -> &'static str {
        "cases = in-scope scenario x one of: ARP message with well-formed Ethernet/IPv4 header, operation over all u16 (dense at 0..4, 8..10), target handled / not handled / no self-IP list, 0..18 padding bytes; ARP with arbitrary htype/ptype/hlen/plen (only: no crash, operations != 1 get nothing); ICMPv4 / ICMPv6 with arbitrary type, code, identifier, sequence, data 0..1472 and Ethernet padding; neighbour solicitation with code 0 / non-zero, target handled / not handled, 0..2 well-formed NDP options, unicast / solicited-node destination. Plus the type x code grid (quick: 256 types x codes {0,1,2,127,255} per IP version; thorough: all 65536 pairs per IP version, exhaustive). Oracle: reference answer rule of the statement with field-by-field comparison by an independent decoder. Non-trivial = a reply is demanded, or the message is a near miss (operation/type/code one step from an answered one); distinct by frame hash. Shadow traffic (vf/shadow.rs): three cases in ten process, before every frame of the case, a sibling of that frame whose result is discarded — the same frame again, or one tuple element (source / destination port, source / destination address, source MAC), one payload bit or the payload length changed; TCP conversations are shadowed whole on a sibling flow validated with its own cookie; sound by the statement of C08, cases whose own flows meet a shadow tuple are excluded and counted."
    }
    fn run(&self, ctx: &mut RunCtx) {
        let n = ctx.share(ctx.tier.n(6_000_000, 60_000_000));
        ctx.run_generated("msg", n, case_strategy(), check);
        let codes: Vec<u8> = if ctx.tier == Tier::Thorough { (0..=255u8).collect() } else { vec![0, 1, 2, 127, 255] };
        // body lengths (bytes after the ICMP header): 0 = the default body; fixed-format ICMP
        // messages (timestamp 16, address mask 8, information 4 ...) have characteristic sizes
        let lens: Vec<u8> = if ctx.tier == Tier::Thorough { vec![0, 4, 8, 12, 16, 20, 36, 56] } else { vec![0, 4, 8, 16] };
        let mut idx = 0u64;
        for v4 in [true, false] {
            for typ in 0..=255u8 {
                for code in &codes {
                    for bl in &lens {
                        idx += 1;
                        if !ctx.owns(idx) {
                            continue;
                        }
                        let g = Grid { v4, typ, code: *code, body_len: *bl };
                        let r = grid_check(&g, ctx.st);
                        ctx.run_one("grid", &g, r);
                    }
                }
            }
        }
        if ctx.worker == 0 {
            ctx.st.exhaustive_parts.push(if ctx.tier == Tier::Thorough { "ICMP type x code: all 65536 pairs x {ICMPv4, ICMPv6} x 8 body lengths".to_string() } else { "ICMP type: all 256 types x codes {0,1,2,127,255} x {ICMPv4, ICMPv6} x 4 body lengths".to_string() });
        }
    }
    fn replay(&self, stream: &str, case: &Value, st: &mut Stats) -> Check {
        let bad = |e: serde_json::Error| Failure::new(format!("bad case: {}", e));
        match stream {
            "grid" => grid_check(&serde_json::from_value(case.clone()).map_err(bad)?, st),
            _ => check(&serde_json::from_value(case.clone()).map_err(bad)?, st),
        }
    }
}
