// C03 — replies go back to the asker, from the identity that was asked.
// C04 — every emitted frame is well-formed at every layer (shares the generator).

use crate::vf::shadow::{shadow_opt, with_shadow, Shadow};
use proptest::collection::vec;
use proptest::prelude::*;
use serde::{Deserialize, Serialize};
use serde_json::{json, Value};
use std::net::IpAddr;

use crate::vf::answerable::*;
use crate::vf::codec::*;
use crate::vf::engine::*;
use crate::vf::gen::*;
use crate::vf::gen_app::*;
use crate::vf::session::*;
use crate::vf::sut::*;
use crate::vf::traffic::*;
use crate::vf::util::*;

pub struct C03;
pub struct C04;

#[derive(Clone, Debug, Serialize, Deserialize, PartialEq)]
pub struct Case {
    pub scn: Scenario,
    pub hist: Vec<Step>,
    pub req: Req,
    /// overwrite the request's transport checksum with this value (the responder does not verify
    /// inbound checksums; its reply must be well-formed all the same)
    #[serde(default)]
    pub req_csum: Option<u16>,
    /// an earlier ARP request (or neighbour solicitation) from the client's IP address but with
    /// this other hardware address
    #[serde(default)]
    pub alias_mac: Option<[u8; 6]>,
    /// IP header fields the responder is not documented to look at (TOS, id, flag bits with
    /// fragment offset 0, TTL >= 1)
    #[serde(default)]
    pub ip_tweak: Option<IpTweak>,
    /// IPv4 header options and TCP options inserted into the request (any request kind)
    #[serde(default)]
    pub opts: Option<(Hex, Hex)>,
    /// the client's address is the responder's own (with equal ports for the requests that have
    /// ports: the 4-tuple is its own mirror image)
    #[serde(default)]
    pub self_addressed: bool,
    /// the request behind VLAN tags (out of scope: should it be answered all the same, the reply
    /// must still be the mirror image, EtherType included)
    #[serde(default)]
    pub vlan: Option<Vec<(u16, u16)>>,
    /// for handshaken TCP data: an earlier data segment on the SAME flow (the judged request is
    /// then a later segment of an established, possibly already identified connection)
    #[serde(default)]
    pub prev: Option<Pay>,
    /// sibling traffic sent before every frame of the case (vf/shadow.rs)
    #[serde(default)]
    pub shadow: Option<Shadow>,
    /// IPv6 extension headers (Hop-by-Hop / Routing / Destination Options / atomic Fragment) put in
    /// front of the judged request's transport. Not answered today; should they ever be, the reply
    /// must be the mirror image of the request all the same
    #[serde(default)]
    pub ext6: Option<Vec<(u8, u8, u8)>>,
}

/// STUN messages for an established STUN flow: any class / method, CHANGE-REQUEST inside
fn stun_any_type() -> impl Strategy<Value = Pay> {
    (stun_req(), prop::option::weighted(0.6, prop::sample::select(vec![0x0101u16, 0x0111, 0x0011, 0x0002, 0x0003, 0x0201, 0x0081]))).prop_map(|(r, t)| {
        let mut b = r.bytes();
        if let Some(t) = t {
            b[0] = (t >> 8) as u8;
            b[1] = t as u8;
        }
        Pay::Bytes(Hex(b))
    })
}

pub fn ip_tweak() -> impl Strategy<Value = IpTweak> {
    (prop_oneof![2 => Just(0u8), 1 => any::<u8>()], any::<u16>(), prop_oneof![2 => Just(2u8), 1 => Just(0u8), 3 => 0u8..8], prop_oneof![2 => Just(64u8), 1 => Just(1u8), 1 => Just(255u8), 1 => any::<u8>()], prop_oneof![4 => Just(0u8), 2 => 1u8..=18, 1 => any::<u8>()]).prop_map(|(tos, id, flags, ttl, pad)| IpTweak { tos, id, flags, ttl, tcp_window: None, tcp_urg: None, pad })
}

/// the same plus TCP window / urgent pointer values (window: 0, 1, around the size of typical
/// answers, maximum; urgent pointer: 0, small, maximum)
pub fn ip_tcp_tweak() -> impl Strategy<Value = IpTweak> {
    (ip_tweak(), prop::option::weighted(0.7, prop_oneof![prop::sample::select(vec![0u16, 1, 11, 64, 100, 128, 255, 256, 392, 512, 1024, 1460, 65535]), any::<u16>()]), prop::option::weighted(0.3, prop_oneof![prop::sample::select(vec![0u16, 1, 65535]), any::<u16>()])).prop_map(|(mut t, w, u)| {
        t.tcp_window = w;
        t.tcp_urg = u;
        t
    })
}

pub fn case_strategy() -> impl Strategy<Value = Case> {
    (case_strategy0(), shadow_opt(), prop::option::weighted(0.06, vec((prop::sample::select(vec![0u8, 60, 44, 44, 43]), prop_oneof![2 => Just(0u8), 1 => 1u8..4, 1 => any::<u8>()], 0u8..3), 1..4))).prop_map(|(mut c, sh, ext6)| {
        c.shadow = sh;
        c.ext6 = ext6;
        c
    })
}

fn case_strategy0() -> impl Strategy<Value = Case> {
    // the inner strategies are built once (building them compiles regexes) and cloned per case
    let (r4, r6) = (req(true), req(false));
    let csum = prop_oneof![5 => Just(None), 1 => prop::sample::select(vec![0u16, 0xffff, 0xdead, 1]).prop_map(Some), 1 => any::<u16>().prop_map(Some)].boxed();
    let hist = prop_oneof![2 => Just(vec![]), 1 => vec(step_leaf(), 0..=6)].boxed();
    let rest = (prop::option::weighted(0.15, mac_unicast()), prop::option::weighted(0.35, ip_tweak()), prop::option::weighted(0.3, (ip4_options(), prop_oneof![1 => Just(Hex(vec![])), 3 => tcp_options()])), (prop::bool::weighted(0.04), prop::option::weighted(0.04, vlan_tags()), prop::option::weighted(0.25, prop_oneof![2 => app_req().prop_map(Pay::App), 2 => stun_req_magic_big().prop_map(|r| Pay::App(AppReq::Stun(r)))]), prop::option::weighted(0.15, stun_any_type()))).boxed();
    scenario_quiet(Fam::Any).prop_flat_map(move |scn| {
        let r = if scn.net.is_v4() { r4.clone() } else { r6.clone() };
        (Just(scn), hist.clone(), r, csum.clone(), rest.clone()).prop_map(|(scn, hist, req, req_csum, (alias_mac, ip_tweak, opts, x))| (scn, hist, req, req_csum, alias_mac, ip_tweak, opts, x)).prop_map(|(mut scn, hist, mut req, req_csum, alias_mac, ip_tweak, opts, (self_addressed, vlan, prev, later_stun))| {
            // a later segment of a STUN flow: any STUN message type
            let mut prev = prev;
            if let (Some(ls), Req::TcpData { pay, .. }) = (later_stun, &mut req) {
                if let Some(Pay::App(AppReq::Stun(_))) = &prev {
                    *pay = ls;
                } else {
                    prev = prev.take();
                }
            }
            if self_addressed {
                scn.net.cip = scn.net.sip;
                if let Some(d) = &mut scn.cfg.deny {
                    let c = scn.net.cip;
                    d.retain(|a| *a != c);
                }
                match &mut req {
                    Req::Syn { sport, dport, .. } | Req::TcpData { sport, dport, .. } | Req::FinAck { sport, dport, .. } | Req::Udp { sport, dport, .. } => *sport = *dport,
                    _ => {}
                }
            }
            Case { shadow: None, ext6: None, scn, hist, req, req_csum, alias_mac, ip_tweak, opts, self_addressed, vlan, prev }
        })
    })
}

#[derive(PartialEq)]
pub enum Mode {
    Mirror,
    WellFormed,
}

/// returns (request frame, reply) if the case produced a reply
pub fn run_case(c: &Case, st: &mut Stats) -> Option<(Vec<u8>, Vec<u8>)> {
    Sut::reset();
    let sut = Sut::new(&c.scn.cfg);
    let mut w = World::new(&sut, &c.scn.net, 40000, 4444);
    st.eval();
    if let Some(m) = &c.alias_mac {
        // same IP address, other hardware address
        let n = &c.scn.net;
        let f = match (&n.cip, &n.sip) {
            (IpAddr::V4(ci), IpAddr::V4(si)) => arp_req_frame(m, &n.dmac, ci.octets(), si.octets()),
            (_, IpAddr::V6(si)) => {
                let mut n2 = n.clone();
                n2.cmac = *m;
                ns_frame(&n2, &si.octets(), &[1, 1, m[0], m[1], m[2], m[3], m[4], m[5]])
            }
            _ => vec![],
        };
        let _ = sut.frame(&f);
        st.class("history:alias-arp/ns-from-the-client-ip-with-another-mac");
    }
    for s in &c.hist {
        let (_f, o) = w.send(s);
        if o.panic().is_some() {
            st.class("skipped:panic-in-history(C01)");
            return None;
        }
    }
    st.frames(w.sent + 1);
    let realized = match (&c.req, &c.prev) {
        (Req::TcpData { sport, dport, isn, pay }, Some(prev)) => {
            // handshake, the earlier segment, then the judged one with continued sequence numbers
            let flow = Flow { net: c.scn.net.clone(), sport: *sport, dport: *dport };
            match learn_cookie(&sut, &flow, *isn) {
                Ok(cookie) => {
                    let pb = prev.bytes(true);
                    let _ = sut.frame(&flow.data(isn.wrapping_add(1), cookie.wrapping_add(1), &pb));
                    st.class(&format!("later-segment-of-a-flow:after-{}", prev.kind()));
                    st.frames(1);
                    Ok(flow.data(isn.wrapping_add(1).wrapping_add(pb.len() as u32), cookie.wrapping_add(1), &pay.bytes(true)))
                }
                Err(e) => Err(e),
            }
        }
        _ => realize(&sut, &c.scn.net, &c.req),
    };
    let mut reqf = match realized {
        Ok(f) => f,
        Err(_) => {
            st.class("skipped:unrealizable");
            return None;
        }
    };
    if let Some((io, to)) = &c.opts {
        if let Some(f2) = insert_options(&reqf, io, to) {
            reqf = f2;
            st.class(&format!("request-with-options:ip4={}:tcp={}", if io.is_empty() { "none" } else { "present" }, if to.is_empty() { "none" } else { "present" }));
        }
    }
    if let Some(h) = &c.ext6 {
        if let Some(f2) = insert_ext6(&reqf, h) {
            reqf = f2;
            st.class("request-behind-ipv6-extension-headers");
        }
    }
    if let Some(v) = c.req_csum {
        if set_l4_checksum(&mut reqf, v) {
            st.class("request-with-wrong-transport-checksum");
        }
    }
    if c.self_addressed {
        st.class("request-from-the-responder's-own-address");
    }
    if let Some(t) = &c.ip_tweak {
        if apply_ip_tweak(&mut reqf, t) {
            st.class(&format!("request-ip-header:flags={:#x}{}", t.flags & 7, if t.ttl <= 1 { ":ttl<=1" } else { "" }));
        }
    }
    if let Some(tags) = &c.vlan {
        reqf = vlan_tagged(&reqf, tags);
        st.class("request-behind-vlan-tags");
    }
    let fam = if c.scn.net.is_v4() { "v4" } else { "v6" };
    match sut.frame(&reqf) {
        Out::Reply(r) => {
            st.class(&format!("answered:{}:{}", fam, c.req.kind()));
            Some((reqf, r))
        }
        Out::Silence => {
            st.class(&format!("unanswered:{}:{}", fam, c.req.kind()));
            None
        }
        Out::Panic(_) => {
            st.class("skipped:panic(C01)");
            None
        }
    }
}

pub fn check_mode(c: &Case, st: &mut Stats, mode: &Mode) -> Check {
    with_shadow(&c.shadow, st, |st| check_mode0(c, st, mode))
}

fn check_mode0(c: &Case, st: &mut Stats, mode: &Mode) -> Check {
    let (reqf, r) = match run_case(c, st) {
        Some(x) => x,
        None => return Ok(()),
    };
    st.nontrivial_hash(fnv(&reqf) ^ fnv(&r).rotate_left(17));
    st.sample(|| json!({"kind": c.req.kind(), "request": hex(&reqf[..reqf.len().min(160)]), "reply": hex(&r[..r.len().min(160)]), "self_ips": c.scn.cfg.self_ips}));
    let d = match decode_reply(&r) {
        Ok(d) => d,
        Err(e) => vfail!("reply does not decode as exactly one frame: {} (request {} reply {})", e, hex(&reqf), hex(&r)),
    };
    match mode {
        Mode::Mirror => {
            // length fields are C04's business: bytes behind the end of the IP packet (link-layer
            // padding to the 60-byte minimum, say) do not make a second frame
            mirror_check(&c.scn.cfg, &reqf, &d).map_err(|f| Failure::new(format!("{} | request {} reply {}", f.msg, hex(&reqf[..reqf.len().min(400)]), hex(&r[..r.len().min(400)]))))
        }
        Mode::WellFormed => wf_verdict(&d, &reqf, &r, st),
    }
}

pub fn wf_verdict(d: &Dec, reqf: &[u8], r: &[u8], st: &mut Stats) -> Check {
    let proto = match &d.l3 {
        L3D::Arp(..) => "arp".to_string(),
        L3D::Ip(ip) => format!("v{}:{}", ip.v, match &ip.l4 { L4D::Icmp { .. } => "icmp", L4D::Icmp6 { .. } => "icmp6", L4D::Tcp(_) => "tcp", L4D::Udp(_) => "udp", L4D::Other(_) => "other" }),
        L3D::Other => "other".to_string(),
    };
    let size = match r.len() { 0..=99 => "<100B", 100..=599 => "100-599B", 600..=1599 => "600-1599B", _ => ">=1600B" };
    st.class(&format!("reply:{}:{}:{}", proto, if r.len() % 2 == 0 { "even" } else { "odd" }, size));
    if !d.problems.is_empty() {
        vfail!("emitted frame is not well-formed: {} | request {} reply {}", d.problems.join("; "), hex(&reqf[..reqf.len().min(400)]), hex(&r[..r.len().min(400)]));
    }
    Ok(())
}

impl Prop for C03 {
    fn id(&self) -> &'static str {
        "C03"
    }
    fn rule(&self) -> &'static str {
        "cases = in-scope scenario (MAC, self-IP list, deny list, key; destination MAC drawn from the authorised set) x 0..6 unrelated history steps x one answerable request, optionally with varied IP header fields the responder is not documented to look at (TOS / traffic class, id / flow label, the three IPv4 flag bits with fragment offset 0, TTL / hop limit 1..255), a wrong transport checksum, IPv4 options on echo, a client MAC that is unicast / broadcast / group / zero, an earlier ARP/NS from the client's IP with another MAC (ARP request with sender address = client / target / 0.0.0.0 / other and target hardware address zero / own MAC / broadcast / client's, echo v4/v6 with data 0..1472, neighbour solicitation unicast/solicited-node with NDP options, SYN with PSH/URG/ECE/CWR and payload, handshaken TCP data / UDP carrying an application request of every protocol generator or a hostile STUN TLV list, FIN|ACK; arbitrary addresses and ports incl. 0 and 65535). Oracle: independent decoder; Ethernet/IP/port tuple of the reply is the mirror image of the request's (NS: source = solicited target; STUN change-port: source port = dport+1); the reply API returns at most one buffer, which must decode as a frame. Non-trivial = a reply exists; distinct by hash of (request, reply). Shadow traffic (vf/shadow.rs): three cases in ten process, before every frame of the case, a sibling of that frame whose result is discarded — the same frame again, or one tuple element (source / destination port, source / destination address, source MAC), one payload bit or the payload length changed; TCP conversations are shadowed whole on a sibling flow validated with its own cookie; sound by the statement of C08, cases whose own flows meet a shadow tuple are excluded and counted."
    }
    fn run(&self, ctx: &mut RunCtx) {
        let n = ctx.share(ctx.tier.n(2_000_000, 20_000_000));
        ctx.run_generated("mirror", n, case_strategy(), |c, st| check_mode(c, st, &Mode::Mirror));
    }
    fn replay(&self, _stream: &str, case: &Value, st: &mut Stats) -> Check {
        let c: Case = serde_json::from_value(case.clone()).map_err(|e| Failure::new(format!("bad case: {}", e)))?;
        check_mode(&c, st, &Mode::Mirror)
    }
}

// ---------------------------------------------------------------------------------------
// C04

#[derive(Clone, Debug, Serialize, Deserialize, PartialEq)]
pub struct BigEcho {
    pub scn: Scenario,
    pub len: u32,
    pub fill: u8,
}

fn big_echo_check(c: &BigEcho, st: &mut Stats) -> Check {
    Sut::reset();
    let sut = Sut::new(&c.scn.cfg);
    st.eval();
    // ICMP echo whose IP packet is as large as the length fields allow
    let max_data = if c.scn.net.is_v4() { 65535 - 20 - 8 } else { 65535 - 8 };
    let n = (c.len as usize).min(max_data);
    let data: Vec<u8> = (0..n).map(|i| c.fill.wrapping_mul(i as u8 | 1)).collect();
    let reqf = echo_frame(&c.scn.net, 7, 9, &data);
    st.frames(1);
    match sut.frame(&reqf) {
        Out::Reply(r) => {
            st.nontrivial_hash(fnv(&r));
            st.class(&format!("big-echo:{}", if c.scn.net.is_v4() { "v4" } else { "v6" }));
            if n == max_data {
                st.class("big-echo:maximum-size");
            }
            let d = decode_reply(&r).map_err(|e| Failure::new(format!("big echo reply does not decode: {}", e)))?;
            vensure!(r.len() == reqf.len(), "echo reply of {} bytes to a request of {} bytes", r.len(), reqf.len());
            wf_verdict(&d, &reqf[..reqf.len().min(64)], &r[..r.len().min(64)], st).map_err(|f| Failure::new(format!("(echo data length {}) {}", n, f.msg)))
        }
        Out::Silence => vfail!("echo request with {} data bytes not answered", n),
        Out::Panic(p) => Err(Failure::keyed(p.key(), format!("panic on echo request with {} data bytes: {} {}", n, p.file, p.msg))),
    }
}

/// Directed search for the 1/65536 case: make a UDP reply's true checksum 0x0000 by
/// choosing a 16-bit word the reply echoes (STUN transaction id, DNS id).
#[derive(Clone, Debug, Serialize, Deserialize, PartialEq)]
pub struct ZeroCsum {
    pub scn: Scenario,
    pub sport: u16,
    pub dport: u16,
    pub stun: bool,
    pub id: [u8; 16],
    pub qname: String,
}

fn zero_csum_check(c: &ZeroCsum, st: &mut Stats) -> Check {
    Sut::reset();
    let sut = Sut::new(&c.scn.cfg);
    st.eval();
    let build = |w: u16| -> Vec<u8> {
        if c.stun {
            let mut id = c.id;
            id[4] = (w >> 8) as u8;
            id[5] = w as u8;
            StunReq { mtype: 1, magic: true, id, attrs: vec![], trailer: Hex(vec![]) }.bytes()
        } else {
            DnsQuery { id: w, flags: 0x0100, questions: vec![DnsQuestion { labels: vec![Hex(c.qname.clone().into_bytes())], qtype: 1, qclass: 1 }] }.bytes()
        }
    };
    let f0 = udp_frame(&c.scn.net, c.sport, c.dport, &build(0));
    st.frames(2);
    let r0 = match sut.frame(&f0) {
        Out::Reply(r) => r,
        _ => {
            st.class("zero-csum:not-answered");
            return Ok(());
        }
    };
    let d0 = decode_reply(&r0).map_err(|e| Failure::new(e))?;
    let (ip, u) = match (d0.ip(), d0.udp()) {
        (Some(i), Some(u)) => (i, u),
        _ => return Ok(()),
    };
    // true checksum of the first reply with the echoed word = 0
    let mut seg = Vec::new();
    seg.extend_from_slice(&u.sport.to_be_bytes());
    seg.extend_from_slice(&u.dport.to_be_bytes());
    seg.extend_from_slice(&u.len.to_be_bytes());
    seg.extend_from_slice(&[0, 0]);
    seg.extend_from_slice(&u.payload);
    let t0 = inet_csum(&seg, pseudo(&ip.src, &ip.dst, P_UDP, seg.len()));
    // choosing the word = t0 makes the one's-complement sum 0xffff, i.e. checksum 0x0000
    let f1 = udp_frame(&c.scn.net, c.sport, c.dport, &build(t0));
    let r1 = match sut.frame(&f1) {
        Out::Reply(r) => r,
        other => vfail!("directed request not answered: {}", other.brief()),
    };
    let d1 = decode_reply(&r1).map_err(|e| Failure::new(e))?;
    // confirm that the construction hit the zero case (otherwise the case is trivial)
    if let (Some(ip1), Some(u1)) = (d1.ip(), d1.udp()) {
        let mut z = Vec::new();
        z.extend_from_slice(&u1.sport.to_be_bytes());
        z.extend_from_slice(&u1.dport.to_be_bytes());
        z.extend_from_slice(&u1.len.to_be_bytes());
        z.extend_from_slice(&[0, 0]);
        z.extend_from_slice(&u1.payload);
        let t1 = inet_csum(&z, pseudo(&ip1.src, &ip1.dst, P_UDP, z.len()));
        if t1 == 0 {
            st.class(&format!("directed-zero:{}:{}", if c.stun { "stun" } else { "dns" }, if c.scn.net.is_v4() { "v4" } else { "v6" }));
            st.nontrivial_hash(fnv(&r1));
            st.sample(|| json!({"directed_zero_checksum": true, "request": hex(&f1), "reply": hex(&r1)}));
        } else {
            st.class("directed-zero:missed");
        }
    }
    wf_verdict(&d1, &f1, &r1, st)
}

impl Prop for C04 {
    fn id(&self) -> &'static str {
        "C04"
    }
    fn rule(&self) -> &'static str {
        "cases = C03's generator (every answerable request kind x both IP versions x all protocol payloads, odd/even sizes, all-0x00 / all-0xFF echo data 0..1472) plus echo requests up to the largest packet the IP length fields allow (65535) plus a directed zero-checksum construction (a UDP reply's echoed 16-bit word — STUN transaction id, DNS id — chosen so that the true checksum is 0x0000, over IPv4 and IPv6). Oracle: independent decoder and RFC 1071 checksum: IPv4 version/IHL/total length/unfragmented/TTL>=1/header checksum, IPv6 version/payload length/hop limit (255 for NA), ICMP/ICMPv6/TCP/UDP checksums over the correct pseudo-header, UDP length, UDP-over-IPv6 checksum never 0 (over IPv4 a zero field only where the computed checksum is zero), TCP data offset, SYN-ACK window != 0. Non-trivial = a reply exists; distinct by hash of (request, reply). Shadow traffic (vf/shadow.rs): three cases in ten process, before every frame of the case, a sibling of that frame whose result is discarded — the same frame again, or one tuple element (source / destination port, source / destination address, source MAC), one payload bit or the payload length changed; TCP conversations are shadowed whole on a sibling flow validated with its own cookie; sound by the statement of C08, cases whose own flows meet a shadow tuple are excluded and counted."
    }
    fn run(&self, ctx: &mut RunCtx) {
        let n = ctx.share(ctx.tier.n(2_000_000, 20_000_000));
        ctx.run_generated("wf", n, case_strategy(), |c, st| check_mode(c, st, &Mode::WellFormed));
        let nb = ctx.share(ctx.tier.n(400, 8_000));
        ctx.run_generated(
            "big-echo",
            nb,
            (scenario_quiet(Fam::Any), prop_oneof![3 => 1400u32..70000, 1 => Just(70000u32), 1 => 0u32..1500], any::<u8>()).prop_map(|(scn, len, fill)| BigEcho { scn, len, fill }),
            big_echo_check,
        );
        let nz = ctx.share(ctx.tier.n(3_000, 60_000));
        ctx.run_generated(
            "zero-csum",
            nz,
            (scenario_quiet(Fam::Any), port(), port(), any::<bool>(), any::<[u8; 16]>(), "[a-z]{1,12}").prop_map(|(scn, sport, dport, stun, id, qname)| {
                let stun = stun || !scn.net.is_v4();
                ZeroCsum { scn, sport, dport, stun, id, qname }
            }),
            zero_csum_check,
        );
    }
    fn replay(&self, stream: &str, case: &Value, st: &mut Stats) -> Check {
        match stream {
            "big-echo" => {
                let c: BigEcho = serde_json::from_value(case.clone()).map_err(|e| Failure::new(format!("bad case: {}", e)))?;
                big_echo_check(&c, st)
            }
            "zero-csum" => {
                let c: ZeroCsum = serde_json::from_value(case.clone()).map_err(|e| Failure::new(format!("bad case: {}", e)))?;
                zero_csum_check(&c, st)
            }
            _ => {
                let c: Case = serde_json::from_value(case.clone()).map_err(|e| Failure::new(format!("bad case: {}", e)))?;
                check_mode(&c, st, &Mode::WellFormed)
            }
        }
    }
}
