// C02 — silence outside scope; replies only from handled addresses.

use proptest::collection::vec;
use proptest::prelude::*;
use serde::{Deserialize, Serialize};
use serde_json::{json, Value};
use std::net::{IpAddr, Ipv4Addr, Ipv6Addr};

use crate::vf::answerable::*;
use crate::vf::codec::*;
use crate::vf::engine::*;
use crate::vf::gen::*;
use crate::vf::gen_app::*;
use crate::vf::sut::*;
use crate::vf::traffic::Pay;
use crate::vf::util::*;

pub struct C02;

#[derive(Clone, Debug, Serialize, Deserialize, PartialEq)]
pub enum Change {
    /// destination MAC outside Auth(MAC,S)
    Mac(MacOff),
    /// requester's IP address put on the deny list
    Denied { extra: Vec<IpAddr> },
    EtherType(u16),
    /// IP protocol / next header outside the supported set
    Proto(u8),
    /// the same frame behind VLAN tags: its EtherType is then 0x8100 / 0x88a8 / ..., not one of
    /// the three supported ones (also with VLAN id 0, the "priority tag")
    Vlan(Vec<(u16, u16)>),
}

#[derive(Clone, Debug, Serialize, Deserialize, PartialEq)]
pub enum MacOff {
    FlipBit(u8),
    /// multicast MAC derived from an address that is not handled
    ForeignMcast([u8; 16]),
    /// RFC 1112 mapping taken from the wrong bits (24 instead of 23)
    WrongBits,
    /// group prefix of one address family combined with the low bits of a handled address of the
    /// other family (33:33:ff + IPv4 low 24 bits; 01:00:5e + IPv6 low 23 bits)
    CrossFamily(u16),
    AllRouters,
    NearBroadcast,
    Random([u8; 6]),
}

#[derive(Clone, Debug, Serialize, Deserialize, PartialEq)]
pub struct Twin {
    pub scn: Scenario,
    pub req: Req,
    pub change: Change,
}

fn mac_off() -> impl Strategy<Value = MacOff> {
    prop_oneof![
        3 => (0u8..48).prop_map(MacOff::FlipBit),
        2 => any::<[u8; 16]>().prop_map(MacOff::ForeignMcast),
        1 => Just(MacOff::WrongBits),
        2 => any::<u16>().prop_map(MacOff::CrossFamily),
        1 => Just(MacOff::AllRouters),
        1 => Just(MacOff::NearBroadcast),
        2 => any::<[u8; 6]>().prop_map(MacOff::Random),
    ]
}

fn change() -> impl Strategy<Value = Change> {
    prop_oneof![
        4 => mac_off().prop_map(Change::Mac),
        3 => vec(any::<[u8; 4]>().prop_map(|a| IpAddr::V4(Ipv4Addr::from(a))), 0..3).prop_map(|extra| Change::Denied { extra }),
        2 => any::<u16>().prop_map(Change::EtherType),
        2 => any::<u8>().prop_map(Change::Proto),
        2 => crate::vf::traffic::vlan_tags().prop_map(Change::Vlan),
    ]
}

pub fn twin_strategy() -> impl Strategy<Value = Twin> {
    // the inner strategies are built once (building them compiles regexes) and cloned per case
    let (r4, r6, ch) = (req(true), req(false), change().boxed());
    scenario_quiet(Fam::Any).prop_flat_map(move |scn| {
        let r = if scn.net.is_v4() { r4.clone() } else { r6.clone() };
        (Just(scn), r, ch.clone()).prop_map(|(scn, req, change)| Twin { scn, req, change })
    })
}

fn supported_proto(v4: bool, p: u8) -> bool {
    if v4 {
        p == P_ICMP || p == P_TCP || p == P_UDP
    } else {
        p == P_ICMP6 || p == P_TCP || p == P_UDP
    }
}

/// apply an out-of-scope change to the concrete in-scope frame; None = the change does not
/// leave the scope for this frame (trivial)
pub fn apply_change(cfg: &Cfg, g: &[u8], ch: &Change) -> Option<(Cfg, Vec<u8>, &'static str)> {
    let mut b = g.to_vec();
    let mut cfg2 = cfg.clone();
    match ch {
        Change::Mac(m) => {
            let mut mac = [0u8; 6];
            mac.copy_from_slice(&g[0..6]);
            let kind;
            match m {
                MacOff::FlipBit(k) => {
                    mac = cfg.mac;
                    mac[(*k / 8) as usize] ^= 1 << (*k % 8);
                    kind = "mac:one-bit-off-own";
                }
                MacOff::ForeignMcast(a) => {
                    if g[12] == 0x08 {
                        mac = v4_mcast_mac(&[a[0], a[1], a[2], a[3]]);
                    } else {
                        mac = solicited_node_mac(a);
                    }
                    kind = "mac:multicast-of-foreign-address";
                }
                MacOff::WrongBits => {
                    // 01:00:5e + low 24 bits (bit 23 not masked) of a handled IPv4 address, or
                    // 33:33:00 + low 24 bits of a handled IPv6 address (not the ff prefix)
                    let mut done = false;
                    if let Some(l) = &cfg.self_ips {
                        for ip in l {
                            match ip {
                                IpAddr::V4(a) if a.octets()[1] & 0x80 != 0 => {
                                    let o = a.octets();
                                    mac = [0x01, 0x00, 0x5e, o[1], o[2], o[3]];
                                    done = true;
                                }
                                IpAddr::V6(a) => {
                                    let o = a.octets();
                                    mac = [0x33, 0x33, 0x00, o[13], o[14], o[15]];
                                    done = true;
                                }
                                _ => {}
                            }
                        }
                    }
                    if !done {
                        mac = [0x01, 0x00, 0x5e, 0x80, 0x00, 0x01];
                    }
                    kind = "mac:mapping-from-wrong-bits";
                }
                MacOff::CrossFamily(i) => {
                    let l = cfg.self_ips.clone().unwrap_or_default();
                    if l.is_empty() {
                        return None;
                    }
                    match &l[pick(*i, l.len())] {
                        IpAddr::V4(a) => {
                            let o = a.octets();
                            mac = [0x33, 0x33, 0xff, o[1], o[2], o[3]];
                        }
                        IpAddr::V6(a) => {
                            let o = a.octets();
                            mac = [0x01, 0x00, 0x5e, o[13] & 0x7f, o[14], o[15]];
                        }
                    }
                    kind = "mac:group-prefix-of-the-other-address-family";
                }
                MacOff::AllRouters => {
                    mac = [0x33, 0x33, 0, 0, 0, 2];
                    kind = "mac:33:33:00:00:00:02";
                }
                MacOff::NearBroadcast => {
                    mac = [0xff, 0xff, 0xff, 0xff, 0xff, 0xfe];
                    kind = "mac:ff:ff:ff:ff:ff:fe";
                }
                MacOff::Random(r) => {
                    mac = *r;
                    kind = "mac:random";
                }
            }
            if auth_macs(cfg).contains(&mac) {
                return None;
            }
            b[0..6].copy_from_slice(&mac);
            Some((cfg2, b, kind))
        }
        Change::Denied { extra } => {
            let v = view_request(g)?;
            let ip = v.ip?;
            let mut d = extra.clone();
            d.push(ip.src);
            if let Some(old) = &cfg.deny {
                d.extend(old.iter().cloned());
            }
            cfg2.deny = Some(d);
            Some((cfg2, b, if ip.v == 4 { "deny:v4" } else { "deny:v6" }))
        }
        Change::EtherType(e) => {
            if *e == ET_ARP || *e == ET_V4 || *e == ET_V6 {
                return None;
            }
            b[12] = (*e >> 8) as u8;
            b[13] = *e as u8;
            Some((cfg2, b, "ethertype"))
        }
        Change::Vlan(tags) => {
            let e = tags.first().map(|t| t.0).unwrap_or(0x8100);
            if e == ET_ARP || e == ET_V4 || e == ET_V6 {
                return None;
            }
            Some((cfg2, vlan_tagged(g, tags), "vlan-tagged"))
        }
        Change::Proto(p) => {
            match be16(g, 12) {
                ET_V4 if g.len() >= 34 => {
                    if supported_proto(true, *p) {
                        return None;
                    }
                    b[14 + 9] = *p;
                    b[14 + 10] = 0;
                    b[14 + 11] = 0;
                    let ihl = ((b[14] & 0x0f) as usize * 4).max(20).min(b.len() - 14);
                    let c = inet_csum(&b[14..14 + ihl], 0);
                    b[14 + 10] = (c >> 8) as u8;
                    b[14 + 11] = c as u8;
                    Some((cfg2, b, "proto:v4"))
                }
                ET_V6 if g.len() >= 54 => {
                    if supported_proto(false, *p) {
                        return None;
                    }
                    b[14 + 6] = *p;
                    Some((cfg2, b, "proto:v6"))
                }
                _ => None,
            }
        }
    }
}

fn twin_check(t: &Twin, st: &mut Stats) -> Check {
    Sut::reset();
    st.eval();
    let sut = Sut::new(&t.scn.cfg);
    let g = match realize(&sut, &t.scn.net, &t.req) {
        Ok(f) => f,
        Err(_) => {
            st.class("skipped:unrealizable");
            return Ok(());
        }
    };
    let (cfg2, b, kind) = match apply_change(&t.scn.cfg, &g, &t.change) {
        Some(x) => x,
        None => {
            st.class("trivial:change-stays-in-scope");
            return Ok(());
        }
    };
    st.frames(3);
    // out-of-scope twin first (so that its silence cannot be due to state left by the in-scope one)
    let sut2 = Sut::new(&cfg2);
    let ob = sut2.frame(&b);
    let og = sut.frame(&g);
    if og.reply().is_none() {
        st.class(&format!("trivial:in-scope-twin-unanswered:{}", t.req.kind()));
        return Ok(());
    }
    st.class(&format!("{}|{}", kind, t.req.kind().split('/').next().unwrap_or("")));
    st.nontrivial_hash(fnv(&b) ^ fnv(kind.as_bytes()));
    st.sample(|| json!({"change": kind, "in_scope": hex(&g[..g.len().min(120)]), "out_of_scope": hex(&b[..b.len().min(120)]), "deny": cfg2.deny}));
    match ob {
        Out::Silence => Ok(()),
        Out::Reply(r) => vfail!("out-of-scope frame ({}) was answered: frame {} reply {} (self-IPs {:?}, deny {:?}, MAC {})", kind, hex(&b), hex(&r[..r.len().min(200)]), t.scn.cfg.self_ips, cfg2.deny, hex(&t.scn.cfg.mac)),
        Out::Panic(p) => Err(Failure::keyed(p.key(), format!("panic on out-of-scope frame: {} {}", p.file, p.msg))),
    }
}

// exhaustive sweeps -----------------------------------------------------------------------

fn base_nets() -> (Cfg, Net, Net) {
    let mac = [0x02, 0x11, 0x22, 0x33, 0x44, 0x55];
    let cfg = Cfg::plain(mac);
    let n4 = Net { cmac: [2, 0, 0, 0, 0, 9], dmac: mac, cip: IpAddr::V4(Ipv4Addr::new(198, 51, 100, 7)), sip: IpAddr::V4(Ipv4Addr::new(203, 0, 113, 9)) };
    let n6 = Net { cmac: [2, 0, 0, 0, 0, 9], dmac: mac, cip: IpAddr::V6(Ipv6Addr::new(0x2001, 0xdb8, 0, 0, 0, 0, 0, 7)), sip: IpAddr::V6(Ipv6Addr::new(0x2001, 0xdb8, 0, 0, 0, 0, 0, 9)) };
    (cfg, n4, n6)
}

fn base_frames(net: &Net) -> Vec<(&'static str, Vec<u8>)> {
    let stun = StunReq { mtype: 1, magic: true, id: [7; 16], attrs: vec![], trailer: Hex(vec![]) }.bytes();
    vec![
        ("echo", echo_frame(net, 1, 1, b"abcdefgh")),
        ("syn", tcp_frame(net, &TcpH::new(40000, 80, 100, 0, F_SYN), &[])),
        ("udp-stun", udp_frame(net, 40000, 3478, &stun)),
    ]
}

#[derive(Clone, Debug, Serialize, Deserialize)]
pub struct Sweep {
    pub v4: bool,
    pub base: String,
    pub change: Change,
}

fn sweep_check(s: &Sweep, st: &mut Stats) -> Check {
    let (cfg, n4, n6) = base_nets();
    let net = if s.v4 { n4 } else { n6 };
    let sut = Sut::new(&cfg);
    let g = base_frames(&net).into_iter().find(|(n, _)| *n == s.base).map(|(_, f)| f).ok_or_else(|| Failure::new("unknown base"))?;
    st.eval();
    st.frames(1);
    let (cfg2, b, kind) = match apply_change(&cfg, &g, &s.change) {
        Some(x) => x,
        None => {
            // in-scope value: must be answered (keeps the sweep honest)
            if sut.frame(&g).reply().is_none() {
                vfail!("base frame {} not answered", s.base);
            }
            return Ok(());
        }
    };
    st.nontrivial_hash(fnv(&b));
    match Sut::new(&cfg2).frame(&b) {
        Out::Silence => Ok(()),
        Out::Reply(r) => vfail!("frame with {:?} was answered: {} -> {}", s.change, hex(&b), hex(&r[..r.len().min(120)])),
        Out::Panic(p) => Err(Failure::keyed(p.key(), format!("panic: {} {}", p.file, p.msg))),
    }
}

// positive clause -------------------------------------------------------------------------

#[derive(Clone, Debug, Serialize, Deserialize, PartialEq)]
pub enum Target {
    InSelf(u16),
    BitOff(u16, u8),
    Random([u8; 16]),
    Multicast([u8; 3]),
    /// the solicited-node group (ff02::1:ffXX:XXXX) of a handled IPv6 address / the 224.x group
    /// sharing the low 23 bits of a handled IPv4 address: groups the responder "belongs to" but
    /// which are not on the self-IP list
    OwnGroup(u16),
}

#[derive(Clone, Debug, Serialize, Deserialize, PartialEq)]
pub struct Member {
    pub scn: Scenario,
    pub req: Req,
    pub target: Target,
    /// also address the IP packet itself (not only the ARP/NS target) to the chosen address
    pub ip_dst_too: bool,
    /// the self-IP list holds no address of the frame's family at all (a list of IPv6 addresses
    /// only and an ARP / IPv4 request, or the reverse)
    #[serde(default)]
    pub single_family: bool,
}

fn member_strategy() -> impl Strategy<Value = Member> {
    let (r4, r6) = (req(true), req(false));
    let target = prop_oneof![
        2 => any::<u16>().prop_map(Target::InSelf),
        3 => (any::<u16>(), any::<u8>()).prop_map(|(i, b)| Target::BitOff(i, b)),
        2 => any::<[u8; 16]>().prop_map(Target::Random),
        1 => any::<[u8; 3]>().prop_map(Target::Multicast),
        2 => any::<u16>().prop_map(Target::OwnGroup),
    ]
    .boxed();
    scenario_quiet(Fam::Any).prop_flat_map(move |mut scn| {
        // force a self-IP list
        if scn.cfg.self_ips.is_none() {
            scn.cfg.self_ips = Some(vec![scn.net.sip]);
        }
        let r = if scn.net.is_v4() { r4.clone() } else { r6.clone() };
        (Just(scn), r, target.clone(), any::<bool>(), prop::bool::weighted(0.12)).prop_map(|(scn, req, target, ip_dst_too, single_family)| Member { scn, req, target, ip_dst_too, single_family })
    })
}

fn member_check(m: &Member, st: &mut Stats) -> Check {
    Sut::reset();
    st.eval();
    let v4 = m.scn.net.is_v4();
    let mut cfg_owned = m.scn.cfg.clone();
    if m.single_family {
        let mut l: Vec<IpAddr> = cfg_owned.self_ips.clone().unwrap_or_default().into_iter().filter(|a| a.is_ipv4() != v4).collect();
        if l.is_empty() {
            l.push(if v4 { IpAddr::V6(Ipv6Addr::new(0x2001, 0xdb8, 0, 0, 0, 0, 0, 0x51)) } else { IpAddr::V4(Ipv4Addr::new(192, 0, 2, 51)) });
        }
        cfg_owned.self_ips = Some(l);
        st.class("self-ip-list-without-any-address-of-the-frame's-family");
    }
    let cfg = &cfg_owned;
    let s = cfg.self_ips.clone().unwrap_or_default();
    let fam: Vec<IpAddr> = s.iter().filter(|a| a.is_ipv4() == v4).cloned().collect();
    let addr: IpAddr = match &m.target {
        Target::InSelf(i) if !fam.is_empty() => fam[pick(*i, fam.len())],
        Target::BitOff(i, b) if !fam.is_empty() => {
            let a = fam[pick(*i, fam.len())];
            let mut o = ip_octets(&a);
            let n = o.len() * 8;
            let k = (*b as usize) % n;
            o[k / 8] ^= 1 << (k % 8);
            if v4 { IpAddr::V4(Ipv4Addr::new(o[0], o[1], o[2], o[3])) } else { let mut x = [0u8; 16]; x.copy_from_slice(&o); IpAddr::V6(Ipv6Addr::from(x)) }
        }
        Target::OwnGroup(i) if !fam.is_empty() => {
            let o = ip_octets(&fam[pick(*i, fam.len())]);
            if v4 {
                IpAddr::V4(Ipv4Addr::new(224, o[1] & 0x7f, o[2], o[3]))
            } else {
                let mut x = [0u8; 16];
                x[0] = 0xff;
                x[1] = 0x02;
                x[11] = 1;
                x[12] = 0xff;
                x[13..].copy_from_slice(&o[13..]);
                IpAddr::V6(Ipv6Addr::from(x))
            }
        }
        Target::Multicast(t) => {
            if v4 { IpAddr::V4(Ipv4Addr::new(224, t[0], t[1], t[2])) } else { let mut x = [0u8; 16]; x[0] = 0xff; x[1] = 0x02; x[11] = 1; x[12] = 0xff; x[13..].copy_from_slice(t); IpAddr::V6(Ipv6Addr::from(x)) }
        }
        _ => {
            let r = match &m.target { Target::Random(r) => *r, _ => [9u8; 16] };
            if v4 { IpAddr::V4(Ipv4Addr::new(r[0], r[1], r[2], r[3])) } else { IpAddr::V6(Ipv6Addr::from(r)) }
        }
    };
    let inside = s.contains(&addr);
    let mut net = m.scn.net.clone();
    net.dmac = cfg.mac; // L2 always passes: this family is about L3 identity
    let sut = Sut::new(cfg);
    // ARP / NS: the *target* is the chosen address; other requests: the IP destination is.
    let reqf = match &m.req {
        Req::Ns { opts, .. } => {
            let t = match addr { IpAddr::V6(a) => a.octets(), _ => return Ok(()) };
            if m.ip_dst_too {
                net.sip = addr;
            } else {
                // the IP packet itself goes to some other unicast address (ICMPv6 NS is exempt from
                // the destination filter): the advertisement must still be sourced from inside S
                let o = other_ip(&addr, 13);
                if !o.is_multicast() {
                    net.sip = o;
                }
            }
            ns_frame(&net, &t, opts)
        }
        _ => {
            net.sip = addr;
            match realize(&sut, &net, &m.req) {
                Ok(f) => f,
                Err(_) => {
                    // SYN to an address outside S is (rightly) not answered: nothing to inspect
                    st.class(if inside { "skipped:unrealizable-inside" } else { "outside:handshake-unanswered" });
                    return Ok(());
                }
            }
        }
    };
    st.frames(2);
    let o = sut.frame(&reqf);
    let r = match o {
        Out::Reply(r) => r,
        _ => {
            st.class(if inside { "inside:unanswered" } else { "outside:unanswered" });
            return Ok(());
        }
    };
    st.class(&format!("{}:answered:{}", if inside { "inside" } else { "outside" }, m.req.kind().split('/').next().unwrap_or("")));
    st.nontrivial_hash(fnv(&reqf));
    st.sample(|| json!({"self_ips": s, "addressed": addr, "request": hex(&reqf[..reqf.len().min(120)]), "reply": hex(&r[..r.len().min(120)])}));
    let d = decode_reply(&r).map_err(Failure::new)?;
    let tail = format!("(self-IP list {:?}; request {} reply {})", s, hex(&reqf[..reqf.len().min(200)]), hex(&r[..r.len().min(200)]));
    match &d.l3 {
        L3D::Arp(a, _) => {
            let spa = IpAddr::V4(Ipv4Addr::from(a.spa));
            vensure!(s.contains(&spa), "ARP reply advertises {} which is not on the self-IP list {}", spa, tail);
        }
        L3D::Ip(ip) => {
            vensure!(s.contains(&ip.src), "reply sourced from {} which is not on the self-IP list {}", ip.src, tail);
            if let L4D::Icmp6 { typ: 136, rest, .. } = &ip.l4 {
                vensure!(rest.len() >= 20, "truncated neighbour advertisement {}", tail);
                let mut t = [0u8; 16];
                t.copy_from_slice(&rest[4..20]);
                let ta = IpAddr::V6(Ipv6Addr::from(t));
                vensure!(s.contains(&ta), "neighbour advertisement for {} which is not on the self-IP list {}", ta, tail);
            }
        }
        L3D::Other => {}
    }
    Ok(())
}

impl Prop for C02 {
    fn id(&self) -> &'static str {
        "C02"
    }
    fn rule(&self) -> &'static str {
        "twin construction: an in-scope answerable frame g (all request kinds, both IP versions, generated configurations) and a twin b obtained by exactly one out-of-scope change — destination MAC outside Auth(MAC,S) (one bit off the own MAC, multicast MAC of a foreign address, RFC 1112 mapping from the wrong bits, 33:33:00:00:00:02, ff:ff:ff:ff:ff:fe, random), requester on the deny list (IPv4 and IPv6, incl. the ICMPv6 path), EtherType outside {ARP,IPv4,IPv6}, the same frame behind 1..3 VLAN tags (incl. VLAN id 0), IP protocol / next header outside the supported set; plus exhaustive sweeps of all 256 protocol numbers per IP version and of EtherTypes (quick: 2048 sampled incl. neighbours of the supported ones; thorough: all 65536) over three answered base frames; plus the positive clause: a self-IP list S is configured and requests are addressed (IP destination / ARP target / NS target) to members of S, one-bit neighbours, random and multicast addresses: every reply's source address, ARP sender address and NA target must be in S. Non-trivial = the in-scope twin was answered (twins) / a reply was produced (membership); distinct by hash of the out-of-scope frame + change kind."
    }
    fn run(&self, ctx: &mut RunCtx) {
        let n = ctx.share(ctx.tier.n(3_000_000, 24_000_000));
        ctx.run_generated("twin", n, twin_strategy(), twin_check);
        let m = ctx.share(ctx.tier.n(2_000_000, 16_000_000));
        ctx.run_generated("member", m, member_strategy(), member_check);
        // exhaustive protocol sweep: 2 IP versions x 3 base frames x 256 values
        let mut idx = 0u64;
        for v4 in [true, false] {
            for base in ["echo", "syn", "udp-stun"] {
                for p in 0..=255u8 {
                    idx += 1;
                    if !ctx.owns(idx) {
                        continue;
                    }
                    let s = Sweep { v4, base: base.to_string(), change: Change::Proto(p) };
                    let r = sweep_check(&s, ctx.st);
                    ctx.run_one("sweep", &s, r);
                }
            }
        }
        if ctx.worker == 0 {
            ctx.st.exhaustive_parts.push("IP protocol / next header: all 256 values x {IPv4,IPv6} x 3 answered base frames".into());
        }
        // EtherType sweep
        let full = ctx.tier == Tier::Thorough;
        let mut ets: Vec<u16> = Vec::new();
        if full {
            ets.extend(0..=65535u16);
        } else {
            for k in 0..2048u32 {
                ets.push(((k * 32) as u16).wrapping_add((fnv(&(ctx.seed ^ k as u64).to_le_bytes()) % 32) as u16));
            }
            for c in [ET_ARP, ET_V4, ET_V6] {
                for d in -3i32..=3 {
                    ets.push((c as i32 + d) as u16);
                }
                ets.push(c.swap_bytes());
            }
            ets.extend([0u16, 1, 0x05dc, 0x0600, 0x8100, 0x88a8, 0x8847, 0x8863, 0x8864, 0xffff]);
        }
        for (i, e) in ets.iter().enumerate() {
            if !ctx.owns(i as u64) {
                continue;
            }
            for (v4, base) in [(true, "echo"), (false, "echo"), (true, "syn")] {
                let s = Sweep { v4, base: base.to_string(), change: Change::EtherType(*e) };
                let r = sweep_check(&s, ctx.st);
                ctx.run_one("sweep", &s, r);
            }
        }
        if ctx.worker == 0 && full {
            ctx.st.exhaustive_parts.push("EtherType: all 65536 values x 3 answered base frames".into());
        }
    }
    fn replay(&self, stream: &str, case: &Value, st: &mut Stats) -> Check {
        let bad = |e: serde_json::Error| Failure::new(format!("bad case: {}", e));
        match stream {
            "member" => member_check(&serde_json::from_value(case.clone()).map_err(bad)?, st),
            "sweep" => sweep_check(&serde_json::from_value(case.clone()).map_err(bad)?, st),
            _ => twin_check(&serde_json::from_value(case.clone()).map_err(bad)?, st),
        }
    }
}
