// C19 — any port, either IP version: answers do not depend on where they were asked.

use proptest::collection::vec;
use proptest::prelude::*;
use serde::{Deserialize, Serialize};
use serde_json::{json, Value};
use std::net::{IpAddr, Ipv4Addr, Ipv6Addr};

use crate::vf::codec::*;
use crate::vf::dec_app::*;
use crate::vf::engine::*;
use crate::vf::gen::*;
use crate::vf::gen_app::*;
use crate::vf::normalise::*;
use crate::vf::session::*;
use crate::vf::sut::*;
use crate::vf::traffic::{bmut, hostile_stun, BMut, Pay};
use crate::vf::util::*;

pub struct C19;

#[derive(Clone, Debug, Serialize, Deserialize, PartialEq)]
pub struct Where {
    pub v4: bool,
    pub c4: [u8; 4],
    pub s4: [u8; 4],
    pub c6: [u8; 16],
    pub s6: [u8; 16],
    pub sport: u16,
    pub dport: u16,
}

#[derive(Clone, Debug, Serialize, Deserialize, PartialEq)]
pub struct Case {
    pub mac: [u8; 6],
    pub cmac: [u8; 6],
    pub key: [u64; 2],
    pub tcp: bool,
    pub pay: Pay,
    pub a: Where,
    pub b: Where,
}

fn wh() -> impl Strategy<Value = Where> {
    let p = || prop_oneof![4 => any::<u16>(), 2 => prop::sample::select(vec![0u16, 53, 80, 111, 445, 3478, 65535, 22, 139])];
    (any::<bool>(), any::<[u8; 4]>(), any::<[u8; 4]>(), any::<[u8; 16]>(), any::<[u8; 16]>(), p(), p()).prop_map(|(v4, c4, s4, c6, s6, sport, dport)| Where { v4, c4, s4, c6, s6, sport, dport })
}

pub fn case_strategy() -> impl Strategy<Value = Case> {
    let pay = prop_oneof![
        6 => app_req().prop_map(Pay::App),
        2 => (app_req(), vec(bmut(), 1..3)).prop_map(|(a, m)| Pay::Mutated(a, m)),
        1 => hostile_stun().prop_map(Pay::Stun),
        1 => vec(any::<u8>(), 0..64).prop_map(|v| Pay::Bytes(Hex(v))),
    ];
    (mac_unicast(), mac_unicast(), any::<[u64; 2]>(), any::<bool>(), pay, wh(), wh(), 0u8..3).prop_map(|(mac, cmac, key, tcp, pay, a, mut b, same)| {
        // a third of the cases vary the ports only, a third the IP version/addresses only
        match same {
            0 => {
                b.v4 = a.v4;
                b.c4 = a.c4;
                b.s4 = a.s4;
                b.c6 = a.c6;
                b.s6 = a.s6;
            }
            1 => {
                b.sport = a.sport;
                b.dport = a.dport;
                b.v4 = !a.v4;
            }
            _ => {}
        }
        Case { mac, cmac, key, tcp, pay, a, b }
    })
}

fn net_of(c: &Case, w: &Where) -> Net {
    if w.v4 {
        Net { cmac: c.cmac, dmac: c.mac, cip: IpAddr::V4(Ipv4Addr::from(w.c4)), sip: IpAddr::V4(Ipv4Addr::from(w.s4)) }
    } else {
        Net { cmac: c.cmac, dmac: c.mac, cip: IpAddr::V6(Ipv6Addr::from(w.c6)), sip: IpAddr::V6(Ipv6Addr::from(w.s6)) }
    }
}

/// (application reply, reply source port) in one context
fn ask(sut: &Sut, c: &Case, w: &Where, payload: &[u8]) -> Result<Option<(Vec<u8>, u16)>, Failure> {
    Sut::reset();
    let net = net_of(c, w);
    let out = if c.tcp {
        let flow = Flow { net: net.clone(), sport: w.sport, dport: w.dport };
        let cookie = learn_cookie(sut, &flow, 10).map_err(Failure::new)?;
        sut.frame(&flow.data(11, cookie.wrapping_add(1), payload))
    } else {
        sut.frame(&udp_frame(&net, w.sport, w.dport, payload))
    };
    match out {
        Out::Silence => Ok(None),
        Out::Panic(p) => Err(Failure::keyed(p.key(), format!("panic: {} {}", p.file, p.msg))),
        Out::Reply(r) => {
            let d = decode_reply(&r).map_err(Failure::new)?;
            match (d.tcp(), d.udp()) {
                (Some(t), _) => Ok(if t.payload.is_empty() { None } else { Some((t.payload.clone(), t.sport)) }),
                (_, Some(u)) => Ok(Some((u.payload.clone(), u.sport))),
                _ => Err(Failure::new("reply is neither TCP nor UDP")),
            }
        }
    }
}

/// structural view of a reply with exactly the address-bearing and wall-clock fields masked
fn masked(who: Responder, a: &[u8], tcp: bool) -> Result<Vec<u8>, String> {
    match who {
        Responder::Stun => {
            let m = parse_stun(a)?;
            let mut v = m.mtype.to_be_bytes().to_vec();
            v.extend_from_slice(&m.tid);
            for (t, val) in &m.attrs {
                v.extend_from_slice(&t.to_be_bytes());
                if *t != 1 {
                    v.extend_from_slice(val);
                }
            }
            Ok(v)
        }
        Responder::Dns => {
            let m = parse_dns(a)?;
            let mut v = Vec::new();
            v.extend_from_slice(&m.id.to_be_bytes());
            v.extend_from_slice(&m.flags.to_be_bytes());
            for q in &m.questions {
                v.extend_from_slice(&q.3);
            }
            v.push(m.answers.len() as u8);
            for rr in &m.answers {
                for l in &rr.name {
                    v.push(l.len() as u8);
                    v.extend_from_slice(l);
                }
                v.extend_from_slice(&rr.typ.to_be_bytes());
                v.extend_from_slice(&rr.class.to_be_bytes());
                v.extend_from_slice(&rr.ttl.to_be_bytes());
            }
            v.push(m.authority.len() as u8);
            v.push(m.additional.len() as u8);
            Ok(v)
        }
        Responder::Rpc => {
            let _ = tcp;
            let body = if rpc_record_marked(a) { &a[4..] } else { a };
            if body.len() < 24 {
                return Err("RPC reply shorter than its header".into());
            }
            let stat = be32(body, 20);
            let mut v = body[..24].to_vec();
            if stat != 0 {
                v.extend_from_slice(&body[24..]);
            } else if body.len() == 24 {
                // empty success
            } else {
                // successful portmapper body = port / universal address / netid list: masked
                v.extend_from_slice(b"<address-bearing body>");
            }
            Ok(v)
        }
        _ => Ok(normalise_app(a)),
    }
}

pub fn check(c: &Case, st: &mut Stats) -> Check {
    st.eval();
    let mut cfg = Cfg::plain(c.mac);
    cfg.key = c.key;
    let sut = Sut::new(&cfg);
    let payload = c.pay.bytes(c.tcp);
    st.frames(if c.tcp { 4 } else { 2 });
    let ra = ask(&sut, c, &c.a, &payload)?;
    let rb = ask(&sut, c, &c.b, &payload)?;
    let varied = format!("{}{}", if c.a.v4 != c.b.v4 { "ipversion+" } else if (c.a.c4, c.a.s4, c.a.c6, c.a.s6) != (c.b.c4, c.b.s4, c.b.c6, c.b.s6) { "addresses+" } else { "" }, if (c.a.sport, c.a.dport) != (c.b.sport, c.b.dport) { "ports" } else { "" });
    st.class(&format!("{}:{}:{}", c.pay.kind(), if c.tcp { "tcp" } else { "udp" }, if varied.is_empty() { "same-context" } else { &varied }));
    let ctx = |w: &Where| format!("{} {}:{} -> {}:{}", if w.v4 { "IPv4" } else { "IPv6" }, if w.v4 { IpAddr::V4(Ipv4Addr::from(w.c4)) } else { IpAddr::V6(Ipv6Addr::from(w.c6)) }, w.sport, if w.v4 { IpAddr::V4(Ipv4Addr::from(w.s4)) } else { IpAddr::V6(Ipv6Addr::from(w.s6)) }, w.dport);
    let show = || format!("payload {} over {} [{}] vs [{}]", hex(&payload[..payload.len().min(120)]), if c.tcp { "TCP" } else { "UDP" }, ctx(&c.a), ctx(&c.b));
    match (&ra, &rb) {
        (None, None) => Ok(()),
        (Some(_), None) | (None, Some(_)) => {
            // DNS over IPv6: the statement's exception list covers the A RDATA (and its length), not
            // the existence of the answer; report.
            vfail!("answered in one context but not in the other ({} / {}): {}", if ra.is_some() { "answered" } else { "silent" }, if rb.is_some() { "answered" } else { "silent" }, show())
        }
        (Some((a, pa)), Some((b, pb))) => {
            st.nontrivial_hash(fnv(&payload) ^ fnv(ctx(&c.a).as_bytes()) ^ fnv(ctx(&c.b).as_bytes()).rotate_left(7));
            let (wa, wb) = (classify_reply(a, c.tcp), classify_reply(b, c.tcp));
            st.sample(|| json!({"payload": hex(&payload[..payload.len().min(60)]), "contexts": [ctx(&c.a), ctx(&c.b)], "responder": format!("{:?}", wa)}));
            vensure!(wa == wb, "answered by {:?} in one context and by {:?} in the other: {}", wa, wb, show());
            // reply source port relative to the destination port (STUN change-port = +1 in both)
            let (oa, ob) = (pa.wrapping_sub(c.a.dport), pb.wrapping_sub(c.b.dport));
            vensure!(oa == ob, "reply source port offset from the destination port differs: {} vs {}: {}", oa, ob, show());
            match (masked(wa, a, c.tcp), masked(wb, b, c.tcp)) {
                (Ok(ma), Ok(mb)) => vensure!(ma == mb, "application replies differ beyond the endpoint-address fields: {} vs {} ({})", hex(&a[..a.len().min(160)]), hex(&b[..b.len().min(160)]), show()),
                // the structural decoder rejects the reply in both contexts alike (replies to
                // mutated requests may echo malformed names): the address-bearing fields cannot be
                // located, so only existence / responder / port offset are compared
                (Err(_), Err(_)) => st.class("reply-undecodable-in-both-contexts(content not compared)"),
                (Err(e), Ok(_)) | (Ok(_), Err(e)) => vfail!("the reply decodes in one context but not in the other ({}): {} vs {} ({})", e, hex(&a[..a.len().min(160)]), hex(&b[..b.len().min(160)]), show()),
            }
            Ok(())
        }
    }
}

impl Prop for C19 {
    fn id(&self) -> &'static str {
        "C19"
    }
    fn rule(&self) -> &'static str {
        "metamorphic: one application payload (request of every protocol generator, byte-mutated requests, hostile STUN TLV lists, random bytes) sent with the transport held fixed (UDP datagram, or first segment of a handshaken TCP flow) in two contexts that differ in source/destination ports only (incl. 0, 53, 80, 111, 445, 3478, 65535), in IP version and addresses only, or in both. Oracle: answered in both contexts or in neither; same responder (independent classifier); reply source port at the same offset from the destination port; application replies equal after structural masking of exactly the listed exceptions — STUN MAPPED-ADDRESS value, successful portmapper bodies (port / universal address / netid), DNS A RDATA and its length, HTTP Date and SMB times. Non-trivial = answered in both contexts; distinct by hash of (payload, contexts)."
    }
    fn run(&self, ctx: &mut RunCtx) {
        let n = ctx.share(ctx.tier.n(600_000, 8_000_000));
        ctx.run_generated("where", n, case_strategy(), check);
    }
    fn replay(&self, _stream: &str, case: &Value, st: &mut Stats) -> Check {
        check(&serde_json::from_value(case.clone()).map_err(|e| Failure::new(format!("bad case: {}", e)))?, st)
    }
}
