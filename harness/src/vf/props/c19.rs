// C19 — any port, either IP version: answers do not depend on where they were asked.

use proptest::collection::vec;
use proptest::prelude::*;
use serde::{Deserialize, Serialize};
use serde_json::{json, Value};
use std::net::{IpAddr, Ipv4Addr, Ipv6Addr};

use crate::vf::codec::*;
use crate::vf::dec_app::*;
use crate::vf::engine::*;
use crate::vf::gen::*;
use crate::vf::gen_app::*;
use crate::vf::normalise::*;
use crate::vf::session::*;
use crate::vf::shadow::{shadow_opt, Shadow, ShadowGuard};
use crate::vf::sut::*;
use crate::vf::traffic::{bmut, hostile_stun, BMut, Pay};
use crate::vf::util::*;

pub struct C19;

#[derive(Clone, Debug, Serialize, Deserialize, PartialEq)]
pub struct Where {
    pub v4: bool,
    pub c4: [u8; 4],
    pub s4: [u8; 4],
    pub c6: [u8; 16],
    pub s6: [u8; 16],
    pub sport: u16,
    pub dport: u16,
}

#[derive(Clone, Debug, Serialize, Deserialize, PartialEq)]
pub struct Case {
    pub mac: [u8; 6],
    pub cmac: [u8; 6],
    pub key: [u64; 2],
    pub tcp: bool,
    pub pay: Pay,
    pub a: Where,
    pub b: Where,
    /// self-IP list mode: 0 = none; 1 = exactly the server addresses of both contexts; 2 / 3 = the
    /// same plus further IPv4 / IPv6 addresses (lists of unequal size per family)
    #[serde(default)]
    pub self_list: u8,
    /// sibling traffic (vf/shadow.rs) accompanying the exchange in context `a` only: the answer
    /// must not depend on where it was asked whatever else the responder has been asked meanwhile
    #[serde(default)]
    pub shadow: Option<Shadow>,
}

fn cfg_for(c: &Case) -> Cfg {
    let mut cfg = Cfg::plain(c.mac);
    cfg.key = c.key;
    if c.self_list != 0 {
        let mut l: Vec<IpAddr> = Vec::new();
        // only the server addresses the two contexts really use
        for w in [&c.a, &c.b] {
            l.push(if w.v4 { IpAddr::V4(Ipv4Addr::from(w.s4)) } else { IpAddr::V6(Ipv6Addr::from(w.s6)) });
        }
        match c.self_list {
            2 => {
                l.push(IpAddr::V4(Ipv4Addr::new(192, 0, 2, 200)));
                l.push(IpAddr::V4(Ipv4Addr::new(192, 0, 2, 201)));
            }
            3 => {
                l.push(IpAddr::V6(Ipv6Addr::new(0x2001, 0xdb8, 0xffff, 0, 0, 0, 0, 1)));
                l.push(IpAddr::V6(Ipv6Addr::new(0x2001, 0xdb8, 0xffff, 0, 0, 0, 0, 2)));
            }
            _ => {}
        }
        l.sort();
        l.dedup();
        cfg.self_ips = Some(l);
    }
    cfg
}

fn wh() -> impl Strategy<Value = Where> {
    let p = || prop_oneof![4 => any::<u16>(), 2 => prop::sample::select(vec![0u16, 53, 80, 111, 445, 3478, 65535, 22, 139, 5353, 137, 123, 161, 443, 8080, 2222, 25, 21, 23, 3389, 2049, 1, 1023, 1024, 49151, 49152, 65534])];
    (any::<bool>(), any::<[u8; 4]>(), any::<[u8; 4]>(), any::<[u8; 16]>(), any::<[u8; 16]>(), p(), p()).prop_map(|(v4, c4, s4, c6, s6, sport, dport)| Where { v4, c4, s4, c6, s6, sport, dport })
}

pub fn case_strategy() -> impl Strategy<Value = Case> {
    (case_strategy0(), shadow_opt()).prop_map(|(mut c, sh)| {
        c.shadow = sh;
        c
    })
}

fn case_strategy0() -> impl Strategy<Value = Case> {
    let pay = prop_oneof![
        6 => app_req().prop_map(Pay::App),
        2 => (app_req(), vec(bmut(), 1..3)).prop_map(|(a, m)| Pay::Mutated(a, m)),
        1 => hostile_stun().prop_map(Pay::Stun),
        1 => vec(any::<u8>(), 0..64).prop_map(|v| Pay::Bytes(Hex(v))),
    ];
    (mac_unicast(), mac_unicast(), any::<[u64; 2]>(), any::<bool>(), pay, wh(), wh(), 0u8..3, (prop_oneof![3 => Just(0u8), 1 => 1u8..4], 0u8..20)).prop_map(|(mac, cmac, key, tcp, pay, mut a, mut b, same, (self_list, eq))| {
        // field-equals-field classes: source port = destination port, client address = server address
        match eq {
            0 => b.sport = b.dport,
            1 => a.sport = a.dport,
            2 => {
                b.c4 = b.s4;
                b.c6 = b.s6;
                b.sport = b.dport;
            }
            3 => {
                b.c4 = b.s4;
                b.c6 = b.s6;
            }
            _ => {}
        }
        // a third of the cases vary the ports only, a third the IP version/addresses only
        match same {
            0 => {
                b.v4 = a.v4;
                b.c4 = a.c4;
                b.s4 = a.s4;
                b.c6 = a.c6;
                b.s6 = a.s6;
            }
            1 => {
                b.sport = a.sport;
                b.dport = a.dport;
                b.v4 = !a.v4;
            }
            _ => {}
        }
        Case { shadow: None, mac, cmac, key, tcp, pay, a, b, self_list }
    })
}

fn net_of(c: &Case, w: &Where) -> Net {
    if w.v4 {
        Net { cmac: c.cmac, dmac: c.mac, cip: IpAddr::V4(Ipv4Addr::from(w.c4)), sip: IpAddr::V4(Ipv4Addr::from(w.s4)) }
    } else {
        Net { cmac: c.cmac, dmac: c.mac, cip: IpAddr::V6(Ipv6Addr::from(w.c6)), sip: IpAddr::V6(Ipv6Addr::from(w.s6)) }
    }
}

/// (application reply, reply source port) in one context
fn ask(sut: &Sut, c: &Case, w: &Where, payload: &[u8]) -> Result<Option<(Vec<u8>, u16)>, Failure> {
    Sut::reset();
    let net = net_of(c, w);
    let out = if c.tcp {
        let flow = Flow { net: net.clone(), sport: w.sport, dport: w.dport };
        let cookie = learn_cookie(sut, &flow, 10).map_err(Failure::new)?;
        sut.frame(&flow.data(11, cookie.wrapping_add(1), payload))
    } else {
        sut.frame(&udp_frame(&net, w.sport, w.dport, payload))
    };
    match out {
        Out::Silence => Ok(None),
        Out::Panic(p) => Err(Failure::keyed(p.key(), format!("panic: {} {}", p.file, p.msg))),
        Out::Reply(r) => {
            let d = decode_reply(&r).map_err(Failure::new)?;
            match (d.tcp(), d.udp()) {
                (Some(t), _) => Ok(if t.payload.is_empty() { None } else { Some((t.payload.clone(), t.sport)) }),
                (_, Some(u)) => Ok(Some((u.payload.clone(), u.sport))),
                _ => Err(Failure::new("reply is neither TCP nor UDP")),
            }
        }
    }
}

/// portmapper DUMP reply body: every field kept except the port / universal address; netids
/// reduced to their transport (tcp6 -> tcp: "netid matching the IP version" is C16's business)
fn masked_dump(version: u32, body: &[u8]) -> Result<Vec<u8>, String> {
    let mut x = Xdr::new(body);
    let mut v = Vec::new();
    loop {
        let more = x.u32()?;
        if more == 0 {
            break;
        }
        if more != 1 {
            return Err(format!("value-follows word {}", more));
        }
        v.extend_from_slice(b"[entry ");
        v.extend_from_slice(&x.u32()?.to_be_bytes());
        v.extend_from_slice(&x.u32()?.to_be_bytes());
        if version == 2 {
            v.extend_from_slice(&x.u32()?.to_be_bytes());
            let _port = x.u32()?;
        } else {
            let netid = x.opaque()?;
            let t: &[u8] = if netid.starts_with(b"tcp") { b"tcp" } else if netid.starts_with(b"udp") { b"udp" } else { &netid };
            v.extend_from_slice(t);
            let _addr = x.opaque()?;
            v.push(b'/');
            v.extend_from_slice(&x.opaque()?);
        }
        v.push(b']');
    }
    if !x.done() {
        return Err("bytes left over after the DUMP list".into());
    }
    Ok(v)
}

/// structural view of a reply with exactly the address-bearing and wall-clock fields masked
fn masked_for(pay: &Pay, who: Responder, a: &[u8], tcp: bool) -> Result<Vec<u8>, String> {
    if who == Responder::Rpc {
        if let Pay::App(AppReq::Rpc(call)) = pay {
            let body = if rpc_record_marked(a) { &a[4..] } else { a };
            if call.program == 100000 && call.procedure == 4 && (2..=4).contains(&call.version) && body.len() >= 24 && be32(body, 20) == 0 {
                let mut v = body[..24].to_vec();
                v.extend_from_slice(&masked_dump(call.version, &body[24..])?);
                return Ok(v);
            }
        }
    }
    masked(who, a, tcp)
}

fn masked(who: Responder, a: &[u8], tcp: bool) -> Result<Vec<u8>, String> {
    match who {
        Responder::Stun => {
            let m = parse_stun(a)?;
            let mut v = m.mtype.to_be_bytes().to_vec();
            v.extend_from_slice(&m.tid);
            for (t, val) in &m.attrs {
                v.extend_from_slice(&t.to_be_bytes());
                // the attributes that by specification carry a transport address (RFC 3489 / 5389 /
                // 5766 / 5780): MAPPED-, RESPONSE-, SOURCE-, CHANGED-ADDRESS, REFLECTED-FROM,
                // XOR-PEER-, XOR-RELAYED-, XOR-MAPPED-ADDRESS (both code points), ALTERNATE-SERVER,
                // RESPONSE-ORIGIN, OTHER-ADDRESS
                if ![0x0001u16, 0x0002, 0x0004, 0x0005, 0x000b, 0x0012, 0x0016, 0x0020, 0x8020, 0x8023, 0x802b, 0x802c].contains(t) {
                    v.extend_from_slice(val);
                }
            }
            Ok(v)
        }
        Responder::Dns => {
            let m = parse_dns(a)?;
            let mut v = Vec::new();
            v.extend_from_slice(&m.id.to_be_bytes());
            v.extend_from_slice(&m.flags.to_be_bytes());
            for q in &m.questions {
                v.extend_from_slice(&q.3);
            }
            v.push(m.answers.len() as u8);
            for rr in &m.answers {
                for l in &rr.name {
                    v.push(l.len() as u8);
                    v.extend_from_slice(l);
                }
                v.extend_from_slice(&rr.typ.to_be_bytes());
                v.extend_from_slice(&rr.class.to_be_bytes());
                v.extend_from_slice(&rr.ttl.to_be_bytes());
            }
            v.push(m.authority.len() as u8);
            v.push(m.additional.len() as u8);
            Ok(v)
        }
        Responder::Rpc => {
            let _ = tcp;
            let body = if rpc_record_marked(a) { &a[4..] } else { a };
            if body.len() < 24 {
                return Err("RPC reply shorter than its header".into());
            }
            let stat = be32(body, 20);
            let mut v = body[..24].to_vec();
            if stat != 0 {
                v.extend_from_slice(&body[24..]);
            } else if body.len() == 24 {
                // empty success
            } else {
                // successful portmapper body = port / universal address / netid list: masked
                v.extend_from_slice(b"<address-bearing body>");
            }
            Ok(v)
        }
        _ => Ok(normalise_app(a)),
    }
}

pub fn check(c: &Case, st: &mut Stats) -> Check {
    st.eval();
    let cfg = cfg_for(c);
    let sut = Sut::new(&cfg);
    if c.self_list != 0 {
        st.class(&format!("self-ip-list-mode-{}", c.self_list));
    }
    let payload = c.pay.bytes(c.tcp);
    st.frames(if c.tcp { 4 } else { 2 });
    let ra = {
        let _g = ShadowGuard::set(&c.shadow);
        let r = ask(&sut, c, &c.a, &payload);
        if c.shadow.is_some() {
            st.class("context-a-accompanied-by-shadow-traffic");
            st.add_extra("shadow_frames", crate::vf::shadow::frames_sent());
            if crate::vf::shadow::tainted() {
                st.exclude("shadow-tuple-collision");
                return Ok(());
            }
        }
        r?
    };
    let rb = ask(&sut, c, &c.b, &payload)?;
    let varied = format!("{}{}", if c.a.v4 != c.b.v4 { "ipversion+" } else if (c.a.c4, c.a.s4, c.a.c6, c.a.s6) != (c.b.c4, c.b.s4, c.b.c6, c.b.s6) { "addresses+" } else { "" }, if (c.a.sport, c.a.dport) != (c.b.sport, c.b.dport) { "ports" } else { "" });
    st.class(&format!("{}:{}:{}", c.pay.kind(), if c.tcp { "tcp" } else { "udp" }, if varied.is_empty() { "same-context" } else { &varied }));
    let ctx = |w: &Where| format!("{} {}:{} -> {}:{}", if w.v4 { "IPv4" } else { "IPv6" }, if w.v4 { IpAddr::V4(Ipv4Addr::from(w.c4)) } else { IpAddr::V6(Ipv6Addr::from(w.c6)) }, w.sport, if w.v4 { IpAddr::V4(Ipv4Addr::from(w.s4)) } else { IpAddr::V6(Ipv6Addr::from(w.s6)) }, w.dport);
    let show = || format!("payload {} over {} [{}] vs [{}]", hex(&payload[..payload.len().min(120)]), if c.tcp { "TCP" } else { "UDP" }, ctx(&c.a), ctx(&c.b));
    match (&ra, &rb) {
        (None, None) => Ok(()),
        (Some(_), None) | (None, Some(_)) => {
            // DNS over IPv6: the statement's exception list covers the A RDATA (and its length), not
            // the existence of the answer; report.
            vfail!("answered in one context but not in the other ({} / {}): {}", if ra.is_some() { "answered" } else { "silent" }, if rb.is_some() { "answered" } else { "silent" }, show())
        }
        (Some((a, pa)), Some((b, pb))) => {
            st.nontrivial_hash(fnv(&payload) ^ fnv(ctx(&c.a).as_bytes()) ^ fnv(ctx(&c.b).as_bytes()).rotate_left(7));
            let (wa, wb) = (classify_reply(a, c.tcp), classify_reply(b, c.tcp));
            st.sample(|| json!({"payload": hex(&payload[..payload.len().min(60)]), "contexts": [ctx(&c.a), ctx(&c.b)], "responder": format!("{:?}", wa)}));
            vensure!(wa == wb, "answered by {:?} in one context and by {:?} in the other: {}", wa, wb, show());
            // reply source port relative to the destination port (STUN change-port = +1 in both)
            let (oa, ob) = (pa.wrapping_sub(c.a.dport), pb.wrapping_sub(c.b.dport));
            vensure!(oa == ob, "reply source port offset from the destination port differs: {} vs {}: {}", oa, ob, show());
            match (masked_for(&c.pay, wa, a, c.tcp), masked_for(&c.pay, wb, b, c.tcp)) {
                (Ok(ma), Ok(mb)) => vensure!(ma == mb, "application replies differ beyond the endpoint-address fields: {} vs {} ({})", hex(&a[..a.len().min(160)]), hex(&b[..b.len().min(160)]), show()),
                // the structural decoder rejects the reply in both contexts alike (replies to
                // mutated requests may echo malformed names): the address-bearing fields cannot be
                // located, so only existence / responder / port offset are compared
                (Err(_), Err(_)) => st.class("reply-undecodable-in-both-contexts(content not compared)"),
                (Err(e), Ok(_)) | (Ok(_), Err(e)) => vfail!("the reply decodes in one context but not in the other ({}): {} vs {} ({})", e, hex(&a[..a.len().min(160)]), hex(&b[..b.len().min(160)]), show()),
            }
            Ok(())
        }
    }
}

// ---------------------------------------------------------------------------------------
// exhaustive port sweeps for golden requests

#[derive(Clone, Debug, Serialize, Deserialize)]
pub struct Sweep {
    pub golden: usize,
    pub tcp: bool,
    pub v4: bool,
    /// true: vary the destination port (source port 40000); false: vary the source port (destination 40001)
    pub vary_dport: bool,
    pub port: u16,
}

pub fn goldens() -> Vec<(&'static str, AppReq)> {
    let dns = DnsQuery { id: 0x4242, flags: 0x0100, questions: vec![DnsQuestion { labels: vec![Hex(b"www".to_vec()), Hex(b"example".to_vec()), Hex(b"org".to_vec())], qtype: 1, qclass: 1 }] };
    let rpc = |version: u32, procedure: u32| RpcCall { xid: 0x72fe1d13, rpcvers_low: 2, program: 100000, version, procedure, cred_flavor: 0, cred: Hex(vec![]), verf_flavor: 0, verf: Hex(vec![]), args: Hex(vec![]) };
    let h1 = Smb1Hdr { command: 0x72, status: 0, flags: 0x18, flags2: 0xc843, pid_high: 1, signature: [0; 8], tid: 2, pid_low: 0xfffe, uid: 3, mid: 4 };
    let h2 = |command: u16| Smb2Hdr { credit_charge: 0, status: 0, command, credits: 31, flags: 0, next_command: 0, message_id: 5, async_id: 6, session_id: 7, signature: [0; 16] };
    vec![
        ("http", AppReq::Http(HttpReq { verb: 0, target: Hex(b"index.html".to_vec()), major: "1".into(), minor: "1".into(), headers: vec![("Host".into(), Hex(b" example.org".to_vec()))], crlf: vec![true; 8], tail: Hex(vec![]) })),
        ("ssh", AppReq::Ssh(SshBanner { v199: false, vtail: String::new(), software: Hex(b"OpenSSH_8.2p1".to_vec()), comment: Some(Hex(b"Ubuntu".to_vec())), tail: Hex(vec![]) })),
        ("ghost", AppReq::Ghost(Hex(b"Gh0st\x16\x00\x00\x00\x01\x00\x00\x00x\x9cc\x00\x00\x00\x01\x00\x01".to_vec()))),
        ("stun", AppReq::Stun(StunReq { mtype: 1, magic: true, id: [7; 16], attrs: vec![], trailer: Hex(vec![]) })),
        ("stun-change-port", AppReq::Stun(StunReq { mtype: 1, magic: false, id: [9; 16], attrs: vec![StunAttr { typ: 3, value: Hex(vec![0, 0, 0, 2]) }], trailer: Hex(vec![]) })),
        ("dns", AppReq::Dns(dns)),
        ("rpc-getport-v2", AppReq::Rpc(rpc(2, 3))),
        ("rpc-dump-v3", AppReq::Rpc(rpc(3, 4))),
        ("rpc-null", AppReq::Rpc(rpc(4, 0))),
        ("smb1-negotiate", AppReq::Smb(SmbReq::Smb1Negotiate { hdr: h1, dialects: vec!["NT LANMAN 1.0".into(), "NT LM 0.12".into()] })),
        ("smb2-negotiate", AppReq::Smb(SmbReq::Smb2Negotiate { hdr: h2(0), dialects: vec![0x0202, 0x0210, 0x0311], secmode: 1, caps: 0x7f, guid: [3; 16], trailer: Hex(vec![]) })),
        ("smb2-session-setup", AppReq::Smb(SmbReq::Smb2SessionSetup { hdr: h2(1), blob: Hex(vec![0x60, 0x48, 6, 6, 0x2b, 6, 1, 5, 5, 2]), flags: 0, secmode: 1, caps: 1, channel: 0, prev: 0 })),
    ]
}

fn sweep_where(s: &Sweep, reference: bool) -> Where {
    let (sport, dport) = if reference { (40000, 40001) } else if s.vary_dport { (40000, s.port) } else { (s.port, 40001) };
    Where { v4: s.v4, c4: [198, 51, 100, 7], s4: [203, 0, 113, 9], c6: [0x20, 1, 0xd, 0xb8, 0, 1, 0, 0, 0, 0, 0, 0, 0, 0, 0, 7], s6: [0x20, 1, 0xd, 0xb8, 0, 2, 0, 0, 0, 0, 0, 0, 0, 0, 0, 9], sport, dport }
}

/// (responder, masked reply, source-port offset) of the golden request in one context
fn sweep_ask(sut: &Sut, c: &Case, w: &Where, payload: &[u8]) -> Result<Option<(Responder, Vec<u8>, u16)>, Failure> {
    match ask(sut, c, w, payload)? {
        None => Ok(None),
        Some((a, sp)) => {
            let who = classify_reply(&a, c.tcp);
            let m = masked_for(&c.pay, who, &a, c.tcp).map_err(|e| Failure::new(format!("golden reply does not decode: {}", e)))?;
            Ok(Some((who, m, sp.wrapping_sub(w.dport))))
        }
    }
}

pub fn sweep_check(s: &Sweep, st: &mut Stats, reference: &mut Option<Option<(Responder, Vec<u8>, u16)>>) -> Check {
    let g = goldens();
    let (name, req) = &g[s.golden % g.len()];
    let c = Case { shadow: None, mac: [0x02, 0x42, 0xac, 0x11, 0x00, 0x02], cmac: [2, 0, 0, 0, 0, 9], key: [11, 22], tcp: s.tcp, pay: Pay::App(req.clone()), a: sweep_where(s, true), b: sweep_where(s, false), self_list: 0 };
    let mut cfg = Cfg::plain(c.mac);
    cfg.key = c.key;
    let sut = Sut::new(&cfg);
    let payload = c.pay.bytes(c.tcp);
    if reference.is_none() {
        *reference = Some(sweep_ask(&sut, &c, &c.a, &payload)?);
    }
    st.eval();
    st.frames(if s.tcp { 2 } else { 1 });
    let got = sweep_ask(&sut, &c, &c.b, &payload)?;
    let refv = reference.as_ref().unwrap();
    let what = format!("golden request '{}' over {} IPv{} with {} port {}", name, if s.tcp { "TCP" } else { "UDP" }, if s.v4 { 4 } else { 6 }, if s.vary_dport { "destination" } else { "source" }, s.port);
    match (refv, &got) {
        (None, None) => Ok(()),
        (Some(_), None) => vfail!("{}: not answered (answered on ports 40000 -> 40001)", what),
        (None, Some(_)) => vfail!("{}: answered (not answered on ports 40000 -> 40001)", what),
        (Some((w0, m0, o0)), Some((w1, m1, o1))) => {
            st.nontrivial(&(s.golden, s.tcp, s.v4, s.vary_dport, s.port));
            vensure!(w0 == w1, "{}: answered by {:?} instead of {:?}", what, w1, w0);
            vensure!(o0 == o1, "{}: reply source port offset {} instead of {}", what, o1, o0);
            vensure!(m0 == m1, "{}: reply differs from the one on ports 40000 -> 40001 beyond the endpoint-address fields: {} vs {}", what, hex(&m1[..m1.len().min(120)]), hex(&m0[..m0.len().min(120)]));
            Ok(())
        }
    }
}

impl Prop for C19 {
    fn id(&self) -> &'static str {
        "C19"
    }
    fn rule(&self) -> &'static str {
        "metamorphic: one application payload (request of every protocol generator, byte-mutated requests, hostile STUN TLV lists, random bytes) sent with the transport held fixed (UDP datagram, or first segment of a handshaken TCP flow) in two contexts that differ in source/destination ports only (incl. 0, 53, 80, 111, 445, 3478, 65535), in IP version and addresses only, or in both; with no self-IP list or one that holds the contexts' server addresses (optionally more addresses of one family than of the other); a share of the contexts has source port = destination port and / or client address = server address. Oracle: answered in both contexts or in neither; same responder (independent classifier); reply source port at the same offset from the destination port; application replies equal after structural masking of exactly the listed exceptions — STUN MAPPED-ADDRESS value, successful portmapper bodies (GETPORT / GETADDR: the port / universal address; DUMP: parsed entry by entry, only port / address masked and netids reduced to their transport), DNS A RDATA and its length, HTTP Date and SMB times. Non-trivial = answered in both contexts; distinct by hash of (payload, contexts). Shadow traffic (vf/shadow.rs): three cases in ten process, before every frame of the case, a sibling of that frame whose result is discarded — the same frame again, or one tuple element (source / destination port, source / destination address, source MAC), one payload bit or the payload length changed; TCP conversations are shadowed whole on a sibling flow validated with its own cookie; sound by the statement of C08, cases whose own flows meet a shadow tuple are excluded and counted."
    }
    fn run(&self, ctx: &mut RunCtx) {
        let n = ctx.share(ctx.tier.n(2_000_000, 16_000_000));
        ctx.run_generated("where", n, case_strategy(), check);
        // exhaustive: every destination port and every source port for each golden request
        let ng = goldens().len();
        let mut combo = 0u64;
        for golden in 0..ng {
            for tcp in [false, true] {
                if tcp && goldens()[golden].0 == "dns" {
                    continue; // DNS is the datagram fallback only
                }
                for v4 in [true, false] {
                    for vary_dport in [true, false] {
                        combo += 1;
                        let mut reference = None;
                        let mut bad = 0;
                        for port in 0..=65535u16 {
                            if !ctx.owns(port as u64 + combo) {
                                continue;
                            }
                            let s = Sweep { golden, tcp, v4, vary_dport, port };
                            let r = sweep_check(&s, ctx.st, &mut reference);
                            if !ctx.run_one("sweep", &s, r) {
                                bad += 1;
                                if bad > 2 {
                                    break;
                                }
                            }
                        }
                    }
                }
            }
        }
        // exhaustive grid: every portmapper-range call shape, IPv4 against IPv6 (same ports)
        let mut gi = 0u64;
        for program in [100000u32, 100003, 99999] {
            for version in 0u32..=6 {
                for procedure in 0u32..=12 {
                    for tcp in [false, true] {
                        gi += 1;
                        if !ctx.owns(gi) {
                            continue;
                        }
                        let call = RpcCall { xid: 0x51fe1d13, rpcvers_low: 2, program, version, procedure, cred_flavor: 0, cred: Hex(vec![]), verf_flavor: 0, verf: Hex(vec![]), args: Hex(vec![0, 1, 0x86, 0xa0, 0, 0, 0, 2, 0, 0, 0, 6, 0, 0, 0, 0]) };
                        let w4 = Where { v4: true, c4: [198, 51, 100, 7], s4: [203, 0, 113, 9], c6: [0x20, 1, 0xd, 0xb8, 0, 1, 0, 0, 0, 0, 0, 0, 0, 0, 0, 7], s6: [0x20, 1, 0xd, 0xb8, 0, 2, 0, 0, 0, 0, 0, 0, 0, 0, 0, 9], sport: 40000, dport: 111 };
                        let mut w6 = w4.clone();
                        w6.v4 = false;
                        let c = Case { shadow: None, mac: [0x02, 0x42, 0xac, 0x11, 0x00, 0x02], cmac: [2, 0, 0, 0, 0, 9], key: [11, 22], tcp, pay: Pay::App(AppReq::Rpc(call)), a: w4, b: w6, self_list: 0 };
                        let r = check(&c, ctx.st);
                        ctx.run_one("where", &c, r);
                    }
                }
            }
        }
        if ctx.worker == 0 {
            ctx.st.exhaustive_parts.push("ONC-RPC call shapes: programs {100000, 100003, 99999} x versions 0..6 x procedures 0..12 x {UDP, TCP}, each over IPv4 against IPv6".into());
        }
        if ctx.worker == 0 {
            ctx.st.exhaustive_parts.push("ports: all 65536 destination ports and all 65536 source ports for 12 golden requests (one per protocol / request kind) x {UDP, TCP} x {IPv4, IPv6}".into());
        }
    }
    fn replay(&self, stream: &str, case: &Value, st: &mut Stats) -> Check {
        if stream == "sweep" {
            let s: Sweep = serde_json::from_value(case.clone()).map_err(|e| Failure::new(format!("bad case: {}", e)))?;
            let mut reference = None;
            return sweep_check(&s, st, &mut reference);
        }
        check(&serde_json::from_value(case.clone()).map_err(|e| Failure::new(format!("bad case: {}", e)))?, st)
    }
}
