// C12 — only requests are answered: protocol-marked replies never elicit a reply;
// reflections die out.

use proptest::collection::vec;
use proptest::prelude::*;
use serde::{Deserialize, Serialize};
use serde_json::{json, Value};
use std::net::IpAddr;

use crate::vf::answerable::*;
use crate::vf::codec::*;
use crate::vf::dec_app::*;
use crate::vf::engine::*;
use crate::vf::gen::*;
use crate::vf::gen_app::*;
use crate::vf::session::*;
use crate::vf::sut::*;
use crate::vf::traffic::Pay;
use crate::vf::util::*;

pub struct C12;

#[derive(Clone, Debug, Serialize, Deserialize, PartialEq)]
pub enum Marked {
    /// ARP with an operation other than request
    Arp { op: u16 },
    /// ICMP echo reply (v4: type 0, v6: type 129) or neighbour advertisement (136)
    Icmp { na: bool, id: u16, seq: u16, data: Hex },
    /// TCP segment with exactly SYN|ACK or exactly RST
    Tcp { synack: bool, sport: u16, dport: u16, seq: u32, ack: u32, payload: Hex,
          /// additional flags out of {FIN, URG, ECE, CWR, NS, ACK} (PSH never: PSH+ACK is a data segment)
          #[serde(default)]
          extra: u16,
          /// the 4-tuple is an established connection (handshake and one accepted data segment)
          /// when the reply-typed segment arrives
          #[serde(default)]
          established: bool },
    /// application message with its protocol's reply marker set
    App { base: AppReq, tcp: bool, sport: u16, dport: u16, variant: u8 },
    /// the same, delivered as a later segment of a TCP flow that a valid request of the same
    /// protocol (`first`) has already identified: the responder then sees the marked message
    /// without any signature in front of it
    AppLater { first: AppReq, base: AppReq, sport: u16, dport: u16, variant: u8 },
}

#[derive(Clone, Debug, Serialize, Deserialize, PartialEq)]
pub struct Case {
    pub scn: Scenario,
    pub m: Marked,
}

fn markable_app() -> impl Strategy<Value = AppReq> {
    prop_oneof![
        3 => dns_query(3).prop_map(AppReq::Dns),
        3 => stun_req().prop_map(AppReq::Stun),
        3 => rpc_call().prop_map(AppReq::Rpc),
        3 => smb_req().prop_map(AppReq::Smb),
    ]
}

pub fn case_strategy() -> impl Strategy<Value = Case> {
    {
        let m = prop_oneof![
            1 => prop_oneof![3 => Just(2u16), 1 => (2u16..12), 1 => any::<u16>().prop_map(|o| if o == 1 { 2 } else { o })].prop_map(|op| Marked::Arp { op }),
            2 => (any::<bool>(), any::<u16>(), any::<u16>(), bytes(40)).prop_map(|(na, id, seq, data)| Marked::Icmp { na, id, seq, data }),
            3 => (any::<bool>(), port(), port(), any::<u32>(), any::<u32>(), prop_oneof![2 => Just(Hex(vec![])), 1 => bytes(40)], prop_oneof![3 => Just(0u16), 2 => prop::sample::select(vec![F_FIN, F_ACK, F_FIN | F_ACK, F_URG, F_ECE, F_CWR, F_NS, F_FIN | F_ACK | F_URG, F_ACK | F_ECE]), 1 => (0u16..512).prop_map(|f| f & !(F_PSH | F_SYN | F_RST))], any::<bool>()).prop_map(|(synack, sport, dport, seq, ack, payload, extra, established)| Marked::Tcp { synack, sport, dport, seq, ack, payload, extra, established }),
            10 => (markable_app(), any::<bool>(), port(), port(), any::<u8>()).prop_map(|(base, tcp, sport, dport, variant)| Marked::App { base, tcp, sport, dport, variant }),
            4 => (prop_oneof![stun_req_magic_big().prop_map(AppReq::Stun), rpc_call().prop_map(AppReq::Rpc), smb_req().prop_map(AppReq::Smb)], markable_app(), port(), port(), any::<u8>()).prop_map(|(first, base, sport, dport, variant)| Marked::AppLater { first, base, sport, dport, variant }),
        ];
        (scenario_quiet(Fam::Any), m).prop_map(|(scn, m)| Case { scn, m })
    }
}

/// (marker-set bytes, which responder's protocol it is)
pub fn set_marker(base: &AppReq, tcp: bool, variant: u8) -> (Vec<u8>, Responder, &'static str) {
    let mut b = base.bytes(tcp);
    match base {
        AppReq::Dns(q) => {
            b[2] |= 0x80;
            if variant % 2 == 1 {
                // a real response: one answer per question
                let n = q.questions.len() as u16;
                b[6] = (n >> 8) as u8;
                b[7] = n as u8;
                for qq in &q.questions {
                    b.extend_from_slice(&qq.name_bytes());
                    b.extend_from_slice(&[0, 1, 0, 1, 0, 0, 0x0e, 0x10, 0, 4, 192, 0, 2, 1]);
                }
                (b, Responder::Dns, "dns:qr=1+answers")
            } else {
                (b, Responder::Dns, "dns:qr=1")
            }
        }
        AppReq::Stun(_) => {
            let (t, name): (u16, &'static str) = match variant % 3 {
                0 => (0x0011, "stun:indication"),
                1 => (0x0101, "stun:success"),
                _ => (0x0111, "stun:error"),
            };
            b[0] = (t >> 8) as u8;
            b[1] = t as u8;
            (b, Responder::Stun, name)
        }
        AppReq::Rpc(_) => {
            let o = if tcp { 8 } else { 4 };
            b[o + 3] = 1;
            (b, Responder::Rpc, if tcp { "rpc-tcp:msg_type=1" } else { "rpc-udp:msg_type=1" })
        }
        AppReq::Smb(s) => {
            if s.is_smb1() {
                b[4 + 9] |= 0x80;
                (b, Responder::Smb, "smb1:reply-flag")
            } else {
                b[4 + 16] |= 0x01;
                (b, Responder::Smb, "smb2:response-flag")
            }
        }
        _ => (b, Responder::Unknown, "other"),
    }
}

/// application payload of the reply to `payload` sent over UDP or as the first data segment of a
/// fresh handshaken TCP flow; Ok(None) = no application reply (UDP: silence, TCP: bare ACK)
pub fn app_exchange(sut: &Sut, net: &Net, tcp: bool, sport: u16, dport: u16, payload: &[u8]) -> Result<Option<Vec<u8>>, Failure> {
    if tcp {
        let flow = Flow { net: net.clone(), sport, dport };
        match deliver(sut, &flow, 31337, payload, &[payload.len()]) {
            Ok(v) => match &v[0] {
                SegReply::Data(p) => Ok(Some(p.clone())),
                SegReply::Ack => Ok(None),
                other => Err(Failure::new(format!("first data segment on a handshaken flow got {:?}", other))),
            },
            Err(e) => Err(Failure::new(e)),
        }
    } else {
        match sut.frame(&udp_frame(net, sport, dport, payload)) {
            Out::Reply(r) => Ok(decode_reply(&r).map_err(Failure::new)?.app().map(|a| a.to_vec())),
            Out::Silence => Ok(None),
            Out::Panic(p) => Err(Failure::keyed(p.key(), format!("panic: {} {}", p.file, p.msg))),
        }
    }
}

pub fn check(c: &Case, st: &mut Stats) -> Check {
    Sut::reset();
    st.eval();
    let cfg = &c.scn.cfg;
    let net = &c.scn.net;
    let sut = Sut::new(cfg);
    let v4 = net.is_v4();
    match &c.m {
        Marked::Arp { op } => {
            if !v4 {
                return Ok(());
            }
            let (ci, si) = match (&net.cip, &net.sip) {
                (IpAddr::V4(a), IpAddr::V4(b)) => (a.octets(), b.octets()),
                _ => return Ok(()),
            };
            let mk = |op: u16| eth(&net.dmac, &net.cmac, ET_ARP, &arp(&ArpM { htype: 1, ptype: 0x0800, hlen: 6, plen: 4, op, sha: net.cmac, spa: ci, tha: [0; 6], tpa: si }));
            st.frames(2);
            if sut.frame(&mk(1)).reply().is_none() {
                st.class("trivial:arp-request-unanswered");
                return Ok(());
            }
            st.class("arp:op!=1");
            st.nontrivial(&("arp", *op));
            match sut.frame(&mk(*op)) {
                Out::Reply(r) => vfail!("ARP message with operation {} answered: {}", op, hex(&r)),
                _ => Ok(()),
            }
        }
        Marked::Icmp { na, id, seq, data } => {
            let mut rest = Vec::new();
            let typ;
            if *na && !v4 {
                typ = 136u8;
                rest.extend_from_slice(&[0x60, 0, 0, 0]);
                rest.extend_from_slice(&ip_octets(&net.sip));
                rest.extend_from_slice(&[2, 1]);
                rest.extend_from_slice(&net.cmac);
            } else {
                typ = if v4 { 0 } else { 129 };
                rest.extend_from_slice(&id.to_be_bytes());
                rest.extend_from_slice(&seq.to_be_bytes());
                rest.extend_from_slice(data);
            }
            // twin: the corresponding request
            let twin = if typ == 136 { ns_frame(net, &{ let mut t = [0u8; 16]; t.copy_from_slice(&ip_octets(&net.sip)); t }, &[]) } else { echo_frame(net, *id, *seq, data) };
            st.frames(2);
            if sut.frame(&twin).reply().is_none() {
                st.class("trivial:icmp-request-unanswered");
                return Ok(());
            }
            let f = if v4 { ip_frame(net, P_ICMP, &icmp4(typ, 0, &rest)) } else { ip_frame(net, P_ICMP6, &icmp6(&net.cip, &net.sip, typ, 0, &rest)) };
            st.class(&format!("icmp:type={}", typ));
            st.nontrivial_hash(fnv(&f));
            match sut.frame(&f) {
                Out::Reply(r) => vfail!("ICMP type {} (a reply-typed message) answered: {} -> {}", typ, hex(&f), hex(&r)),
                _ => Ok(()),
            }
        }
        Marked::Tcp { synack, sport, dport, seq, ack, payload, extra, established } => {
            st.frames(2);
            let twin = tcp_frame(net, &TcpH::new(*sport, *dport, *seq, 0, F_SYN), &[]);
            let cookie = match sut.frame(&twin) {
                Out::Reply(r) => decode_reply(&r).ok().and_then(|d| d.tcp().map(|t| t.seq)),
                _ => None,
            };
            let cookie = match cookie {
                Some(k) => k,
                None => {
                    st.class("trivial:syn-unanswered");
                    return Ok(());
                }
            };
            if *established {
                let fl = Flow { net: net.clone(), sport: *sport, dport: *dport };
                let o = sut.frame(&fl.data(seq.wrapping_add(1), cookie.wrapping_add(1), b"GET / HTTP/1.1\r\n\r\n"));
                st.frames(1);
                st.class(if o.reply().is_some() { "tcp:on-an-established-connection" } else { "tcp:establishing-data-unanswered" });
            }
            let flags = (if *synack { F_SYN | F_ACK } else { F_RST }) | (*extra & !(F_PSH | F_SYN | F_RST));
            if *extra != 0 {
                st.class("tcp:reply-typed-with-extra-flags");
            }
            let f = tcp_frame(net, &TcpH::new(*sport, *dport, *seq, *ack, flags), payload);
            st.class(if *synack { "tcp:syn-ack" } else { "tcp:rst" });
            st.nontrivial_hash(fnv(&f));
            match sut.frame(&f) {
                Out::Reply(r) => vfail!("TCP segment with flags {:#x} answered: {} -> {}", flags, hex(&f), hex(&r)),
                _ => Ok(()),
            }
        }
        Marked::App { base, tcp, sport, dport, variant } => {
            let (marked, who, name) = set_marker(base, *tcp, *variant);
            let plain = base.bytes(*tcp);
            // the property presupposes identification: skip listed matcher divergences
            if let super::c10::Divergence::Known(k) = super::c10::divergence(&plain, !*tcp) {
                st.exclude(k);
                return Ok(());
            }
            st.frames(4);
            let twin = app_exchange(&sut, net, *tcp, *sport, *dport, &plain)?;
            let answered_by_x = twin.as_ref().map(|a| classify_reply(a, *tcp) == who).unwrap_or(false);
            if !answered_by_x {
                st.class(&format!("trivial:marker-cleared-twin-unanswered:{}", name));
                return Ok(());
            }
            Sut::reset();
            let r = app_exchange(&sut, net, *tcp, sport.wrapping_add(1), *dport, &marked)?;
            st.class(&format!("{}:{}", name, if *tcp { "tcp" } else { "udp" }));
            st.nontrivial_hash(fnv(&marked) ^ *tcp as u64);
            st.sample(|| json!({"marked": name, "transport": if *tcp { "tcp" } else { "udp" }, "bytes": hex(&marked[..marked.len().min(80)])}));
            match r {
                None => Ok(()),
                Some(a) => {
                    let y = classify_reply(&a, *tcp);
                    if y == who {
                        vfail!("{} message (reply marker set) answered by its own protocol's responder over {}: {} -> {}", name, if *tcp { "TCP" } else { "UDP" }, hex(&marked[..marked.len().min(120)]), hex(&a[..a.len().min(120)]));
                    }
                    if y == Responder::Unknown {
                        vfail!("{} message answered by an unrecognised responder: {} -> {}", name, hex(&marked[..marked.len().min(120)]), hex(&a[..a.len().min(120)]));
                    }
                    st.class(&format!("cross_protocol:{}->{:?}", name, y));
                    Ok(())
                }
            }
        }
        Marked::AppLater { first, base, sport, dport, variant } => {
            // same protocol family for both (otherwise the case says nothing)
            let fam = |a: &AppReq| match a { AppReq::Stun(_) => 1, AppReq::Rpc(_) => 2, AppReq::Smb(_) => 3, _ => 0 };
            if fam(first) == 0 || fam(first) != fam(base) {
                st.class("trivial:later:other-protocol-family");
                return Ok(());
            }
            let fb = first.bytes(true);
            if let super::c10::Divergence::Known(k) = super::c10::divergence(&fb, false) {
                st.exclude(k);
                return Ok(());
            }
            let (marked, who, name) = set_marker(base, true, *variant);
            let flow = Flow { net: net.clone(), sport: *sport, dport: *dport };
            let mut stream = fb.clone();
            stream.extend_from_slice(&marked);
            st.frames(3);
            let rs = deliver(&sut, &flow, 500, &stream, &[fb.len(), marked.len()]).map_err(Failure::new)?;
            let first_by_x = matches!(&rs[0], SegReply::Data(p) if classify_reply(p, true) == who);
            if !first_by_x {
                st.class(&format!("trivial:later:first-request-not-answered-by-{:?}", who));
                return Ok(());
            }
            st.class(&format!("later-segment:{}", name));
            st.nontrivial_hash(fnv(&stream) ^ 0x1a7e5);
            match &rs[1] {
                SegReply::Data(a) if classify_reply(a, true) == who => {
                    vfail!("{} message (reply marker set) sent as a later segment of a flow identified as {:?} was answered by that responder: {} -> {}", name, who, hex(&marked[..marked.len().min(120)]), hex(&a[..a.len().min(120)]))
                }
                SegReply::Other(o) if o.starts_with("panic") => Err(Failure::keyed("panic", o.clone())),
                _ => Ok(()),
            }
        }
    }
}

// ---------------------------------------------------------------------------------------
// reflection chains

#[derive(Clone, Debug, Serialize, Deserialize, PartialEq)]
pub struct Refl {
    pub scn: Scenario,
    pub req: Req,
}

fn refl_strategy() -> impl Strategy<Value = Refl> {
    scenario_quiet(Fam::Any).prop_flat_map(|mut scn| {
        // the reply must be deliverable verbatim: no self-IP / deny lists, requester MAC = responder MAC
        scn.cfg.self_ips = None;
        scn.cfg.deny = None;
        scn.net.cmac = scn.cfg.mac;
        scn.net.dmac = scn.cfg.mac;
        let v4 = scn.net.is_v4();
        let app = markable_app().prop_map(Pay::App);
        let app2 = markable_app().prop_map(Pay::App);
        // classic STUN with an attacker-chosen transaction id whose first 8 bytes are zero: the
        // success response then parses as a question-less DNS message
        let stun0 = any::<[u8; 8]>().prop_map(|t| {
            let mut id = [0u8; 16];
            id[8..].copy_from_slice(&t);
            Pay::App(AppReq::Stun(StunReq { mtype: 1, magic: false, id, attrs: vec![], trailer: Hex(vec![]) }))
        });
        let l2 = if v4 { (0u8..4, 0u8..4, 0u8..5).prop_map(|(pad, spa, tha)| Req::Arp { pad, spa, tha, sha_other: false }).boxed() } else { (ndp_opts_wf(), any::<bool>()).prop_map(|(opts, unicast)| Req::Ns { opts, unicast, other_dst: None }).boxed() };
        let req = prop_oneof![
            1 => l2,
            1 => (any::<u16>(), any::<u16>(), bytes(32)).prop_map(|(id, seq, data)| Req::Echo { id, seq, data, pad: 0, ip4_opts: Hex(vec![]) }),
            1 => (port(), port(), any::<u32>()).prop_map(|(sport, dport, seq)| Req::Syn { sport, dport, seq, extra: 0, payload: Hex(vec![]) }),
            6 => (port(), port(), prop_oneof![4 => app, 1 => stun0]).prop_map(|(sport, dport, pay)| Req::Udp { sport, dport, pay }),
            3 => (port(), port(), any::<u32>(), app2).prop_map(|(sport, dport, isn, pay)| Req::TcpData { sport, dport, isn, pay }),
        ];
        (Just(scn), req).prop_map(|(scn, req)| Refl { scn, req })
    })
}

fn refl_check(c: &Refl, st: &mut Stats) -> Check {
    refl_check_mode(c, st, false)
}

/// `two`: the bounce partner is a second responder (own MAC and cookie key) instead of the
/// same instance.
fn refl_check_mode(c: &Refl, st: &mut Stats, two: bool) -> Check {
    Sut::reset();
    st.eval();
    let mut net = c.scn.net.clone();
    let mut cfg_v = c.scn.cfg.clone();
    if two {
        cfg_v.mac[5] ^= 0x5a;
        cfg_v.mac[0] &= 0xfe;
        cfg_v.key = [c.scn.cfg.key[0] ^ 0x1234_5678_9abc_def0, c.scn.cfg.key[1].rotate_left(13) ^ 1];
        net.cmac = cfg_v.mac;
    }
    let sut = Sut::new(&c.scn.cfg);
    let sut_v = Sut::new(&cfg_v);
    if !two {
        // A TCP segment whose source endpoint equals its destination endpoint is its own mirror
        // image: the bounced reply is indistinguishable from the peer's next data segment on the
        // validated flow, which C07 *requires* to be answered. Outside this property's domain.
        if let Req::TcpData { sport, dport, .. } = &c.req {
            if net.cip == net.sip && sport == dport {
                st.exclude("self-symmetric-tcp-tuple");
                return Ok(());
            }
        }
    }
    let m0 = match realize(&sut, &net, &c.req) {
        Ok(f) => f,
        Err(_) => return Ok(()),
    };
    let r1 = match sut.frame(&m0) {
        Out::Reply(r) => r,
        _ => {
            st.class(&format!("trivial:unanswered:{}", c.req.kind()));
            return Ok(());
        }
    };
    // r1 is the responder's own reply (a reply-typed message). Bounce it back.
    let mut cur = r1.clone();
    let mut chain: Vec<Vec<u8>> = vec![];
    for hop in 0..6 {
        let who = if two && hop % 2 == 0 { &sut_v } else { &sut };
        match who.frame(&cur) {
            Out::Reply(r) => {
                chain.push(r.clone());
                cur = r;
            }
            Out::Silence => break,
            Out::Panic(p) => return Err(Failure::keyed(p.key(), format!("panic while reflecting: {} {}", p.file, p.msg))),
        }
    }
    st.frames(2 + chain.len() as u64 + 1);
    st.class(&format!("reflect{}:{}:{}-further-replies", if two { "(two responders)" } else { "(same responder)" }, c.req.kind(), chain.len()));
    st.nontrivial_hash(fnv(&m0));
    st.sample(|| json!({"request": hex(&m0[..m0.len().min(100)]), "own_reply": hex(&r1[..r1.len().min(100)]), "further_replies": chain.len()}));
    if chain.len() > 2 {
        vfail!(
            "reflection does not die out: the responder's own reply to {} ({}), bounced back, elicited {}+ further replies: request {} -> reply {} -> {}",
            c.req.kind(),
            c.scn.net.cip,
            chain.len(),
            hex(&m0[..m0.len().min(160)]),
            hex(&r1[..r1.len().min(160)]),
            chain.iter().map(|r| hex(&r[..r.len().min(80)])).collect::<Vec<_>>().join(" -> ")
        );
    }
    Ok(())
}

// ---------------------------------------------------------------------------------------
// exhaustive port sweep: reply-typed datagrams are ignored on every destination / source port

#[derive(Clone, Debug, Serialize, Deserialize, PartialEq)]
pub struct PortSweep {
    pub v4: bool,
    pub msg: u8,
    pub dport: u16,
    pub sport: u16,
}

fn golden_marked(i: u8) -> (Vec<u8>, &'static str) {
    match i % 5 {
        0 => {
            let q = DnsQuery { id: 0x4242, flags: 0x0100, questions: vec![DnsQuestion { labels: vec![Hex(b"example".to_vec()), Hex(b"org".to_vec())], qtype: 1, qclass: 1 }] };
            set_marker_named(&AppReq::Dns(q), 1)
        }
        1 => {
            let q = DnsQuery { id: 7, flags: 0x0000, questions: vec![DnsQuestion { labels: vec![Hex(b"a".to_vec())], qtype: 1, qclass: 1 }] };
            set_marker_named(&AppReq::Dns(q), 0)
        }
        2 => set_marker_named(&AppReq::Stun(StunReq { mtype: 1, magic: true, id: [9; 16], attrs: vec![], trailer: Hex(vec![]) }), 1),
        3 => set_marker_named(&AppReq::Stun(StunReq { mtype: 1, magic: false, id: [3; 16], attrs: vec![], trailer: Hex(vec![]) }), 0),
        _ => set_marker_named(&AppReq::Rpc(RpcCall { xid: 0x1234_5678, rpcvers_low: 2, program: 100000, version: 2, procedure: 3, cred_flavor: 0, cred: Hex(vec![]), verf_flavor: 0, verf: Hex(vec![]), args: Hex(vec![]) }), 0),
    }
}

fn set_marker_named(a: &AppReq, variant: u8) -> (Vec<u8>, &'static str) {
    let (b, _, n) = set_marker(a, false, variant);
    (b, n)
}

fn port_sweep_check(c: &PortSweep, st: &mut Stats) -> Check {
    st.eval();
    st.frames(1);
    let mac = [0x02, 0x12, 0x34, 0x56, 0x78, 0x9a];
    let cfg = Cfg::plain(mac);
    let net = if c.v4 {
        Net { cmac: [2, 0, 0, 0, 0, 5], dmac: mac, cip: IpAddr::V4(std::net::Ipv4Addr::new(198, 51, 100, 23)), sip: IpAddr::V4(std::net::Ipv4Addr::new(203, 0, 113, 77)) }
    } else {
        Net { cmac: [2, 0, 0, 0, 0, 5], dmac: mac, cip: IpAddr::V6(std::net::Ipv6Addr::new(0x2001, 0xdb8, 0, 0, 0, 0, 0, 0x23)), sip: IpAddr::V6(std::net::Ipv6Addr::new(0x2001, 0xdb8, 0, 0, 0, 0, 0, 0x77)) }
    };
    let sut = Sut::new(&cfg);
    let (m, name) = golden_marked(c.msg);
    let f = udp_frame(&net, c.sport, c.dport, &m);
    st.nontrivial_hash(fnv(&f));
    match sut.frame(&f) {
        Out::Silence => Ok(()),
        Out::Reply(r) => vfail!("{} datagram (reply-typed, no request of another protocol) from port {} to port {} was answered: {} -> {}", name, c.sport, c.dport, hex(&m[..m.len().min(60)]), hex(&r[..r.len().min(120)])),
        Out::Panic(p) => Err(Failure::keyed(p.key(), format!("panic: {} {}", p.file, p.msg))),
    }
}

impl Prop for C12 {
    fn id(&self) -> &'static str {
        "C12"
    }
    fn rule(&self) -> &'static str {
        "twin construction per protocol: a request from the protocol's generator and the same bytes with the protocol's reply marker set — ARP operation != 1, ICMP type 0 / ICMPv6 129 / neighbour advertisement, TCP exactly SYN|ACK and exactly RST (any seq/ack/ports, with and without payload), DNS QR=1 (questions only; with answers), STUN indication / success / error class (with and without magic cookie), SMB1 flags bit 7, SMB2 flags bit 0, ONC-RPC msg_type 1 over UDP and TCP (application messages wrapped in valid UDP or a handshaken TCP flow). Oracle: the marked message is not answered by its own protocol's responder (independent classifier); any other answer must be recognisably another protocol's (counted as cross_protocol). Reflection: answerable requests (ARP, echo, NS, SYN, DNS/STUN/RPC over UDP incl. attacker-chosen STUN transaction ids, SMB/RPC/DNS/STUN over TCP) sent from the responder's own MAC with no address lists, the reply bounced back verbatim up to depth 6; at most 2 further replies. Non-trivial = marker-cleared twin answered by that protocol / the request was answered; distinct by hash. Also: the reply-typed application message delivered as a LATER segment of a TCP flow that a valid request of the same protocol has already identified (the responder then sees it without a signature in front); and an exhaustive sweep of all 65536 destination and all 65536 source UDP ports over 5 reply-typed datagrams on both IP versions (silence required)."
    }
    fn run(&self, ctx: &mut RunCtx) {
        let n = ctx.share(ctx.tier.n(1_200_000, 10_000_000));
        ctx.run_generated("marked", n, case_strategy(), check);
        let m = ctx.share(ctx.tier.n(800_000, 6_000_000));
        ctx.run_generated("reflect", m, refl_strategy(), refl_check);
        ctx.run_generated("reflect2", m, refl_strategy(), |c, st| refl_check_mode(c, st, true));
        // every destination port and every source port, 5 reply-typed datagrams, both IP versions
        let mut idx = 0u64;
        for v4 in [true, false] {
            for msg in 0..5u8 {
                for p in 0..=65535u16 {
                    idx += 1;
                    if !ctx.owns(idx) {
                        continue;
                    }
                    let a = PortSweep { v4, msg, dport: p, sport: 40000 };
                    let r = port_sweep_check(&a, ctx.st);
                    ctx.run_one("ports", &a, r);
                    let b = PortSweep { v4, msg, dport: 33333, sport: p };
                    let r = port_sweep_check(&b, ctx.st);
                    ctx.run_one("ports", &b, r);
                }
            }
        }
        if ctx.worker == 0 {
            ctx.st.exhaustive_parts.push("UDP ports: all 65536 destination ports and all 65536 source ports x 5 reply-typed datagrams (DNS response with answers, DNS QR=1, STUN success with cookie, STUN indication, ONC-RPC reply) x {IPv4, IPv6}".into());
        }
    }
    fn replay(&self, stream: &str, case: &Value, st: &mut Stats) -> Check {
        let bad = |e: serde_json::Error| Failure::new(format!("bad case: {}", e));
        match stream {
            "reflect" => refl_check(&serde_json::from_value(case.clone()).map_err(bad)?, st),
            "reflect2" => refl_check_mode(&serde_json::from_value(case.clone()).map_err(bad)?, st, true),
            "ports" => port_sweep_check(&serde_json::from_value(case.clone()).map_err(bad)?, st),
            _ => check(&serde_json::from_value(case.clone()).map_err(bad)?, st),
        }
    }
}
