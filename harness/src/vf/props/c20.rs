// C20 — the event log is a faithful, balanced account of every frame.

use proptest::collection::vec;
use proptest::prelude::*;
use serde::{Deserialize, Serialize};
use serde_json::{json, Value};
use std::net::IpAddr;

use crate::vf::answerable::*;
use crate::vf::codec::*;
use crate::vf::engine::*;
use crate::vf::gen::*;
use crate::vf::sut::*;
use crate::vf::traffic::*;
use crate::vf::util::*;

pub struct C20;

#[derive(Clone, Debug, Serialize, Deserialize, PartialEq)]
pub enum Item {
    Step(Step),
    Req(Req),
}

#[derive(Clone, Debug, Serialize, Deserialize, PartialEq)]
pub struct Case {
    pub scn: Scenario,
    pub logger: LoggerKind,
    /// put the client on the deny list
    pub deny_client: bool,
    /// address the traffic to an address outside the self-IP list
    pub foreign_dst: bool,
    pub items: Vec<Item>,
}

pub fn case_strategy(kind: LoggerKind) -> impl Strategy<Value = Case> {
    // the inner strategies are built once (building them compiles regexes) and cloned per case
    let st = step();
    let (r4, r6) = (req(true), req(false));
    let i4 = vec(prop_oneof![3 => st.clone().prop_map(Item::Step), 2 => r4.prop_map(Item::Req)], 1..=6).boxed();
    let i6 = vec(prop_oneof![3 => st.prop_map(Item::Step), 2 => r6.prop_map(Item::Req)], 1..=6).boxed();
    scenario_quiet(Fam::Any).prop_flat_map(move |scn| {
        let items = if scn.net.is_v4() { i4.clone() } else { i6.clone() };
        (Just(scn), prop::bool::weighted(0.12), prop::bool::weighted(0.15), items).prop_map(move |(scn, deny_client, foreign_dst, items)| Case { scn, logger: kind, deny_client, foreign_dst, items })
    })
}

#[derive(Clone, Debug, PartialEq)]
pub struct Ev {
    pub layer: String,
    pub verb: String,
    /// (key, value) pairs of the address fields printed on the line
    pub fields: Vec<(String, String)>,
}

fn mac_s(m: &[u8]) -> String {
    format!("{:02x}:{:02x}:{:02x}:{:02x}:{:02x}:{:02x}", m[0], m[1], m[2], m[3], m[4], m[5])
}

const CI_KEYS: [&str; 7] = ["mac_src", "mac_dst", "ip_src", "ip_dst", "transport", "port_src", "port_dst"];

pub fn parse_console(text: &str) -> Result<Vec<Ev>, String> {
    let mut v = Vec::new();
    if !text.is_empty() && !text.ends_with('\n') {
        return Err(format!("output does not end with a newline (incomplete line): {:?}", text.chars().rev().take(80).collect::<String>().chars().rev().collect::<String>()));
    }
    for line in text.lines() {
        let f: Vec<&str> = line.split('\t').collect();
        if f.len() < 3 {
            return Err(format!("line with {} columns: {:?}", f.len(), line));
        }
        if f[0].is_empty() {
            return Err(format!("empty timestamp column: {:?}", line));
        }
        let (layer, verb) = (f[1], f[2]);
        let want = match layer {
            "arp" => 8,
            "eth" | "ipv4" | "ipv6" | "udp" => 11,
            "icmpv4" | "icmpv6" => 12,
            "tcp" => 13,
            other => return Err(format!("unknown protocol column {:?} in line {:?}", other, line)),
        };
        if !["recv", "send", "drop"].contains(&verb) {
            return Err(format!("unknown verb {:?} in line {:?}", verb, line));
        }
        // a line cut short is incomplete; further columns behind the known ones are the format's business
        if f.len() < want {
            return Err(format!("{} {} line has {} tab-separated columns, expected at least {}: {:?}", layer, verb, f.len(), want, line));
        }
        let mut fields = Vec::new();
        if layer == "arp" {
            // recv/drop: sender hw, target hw, sender ip, target ip, op ; send: target hw, sender hw, target ip, sender ip, op
            // recv/drop columns: sender hw, target hw, sender ip, target ip (the frame's own fields);
            // send columns describe the reply and are only checked for membership
            if verb == "send" {
                fields.push(("mac".to_string(), f[3].to_string()));
                fields.push(("mac".to_string(), f[4].to_string()));
                fields.push(("ip".to_string(), f[5].to_string()));
                fields.push(("ip".to_string(), f[6].to_string()));
            } else {
                fields.push(("arp_sha".to_string(), f[3].to_string()));
                fields.push(("arp_tha".to_string(), f[4].to_string()));
                fields.push(("arp_spa".to_string(), f[5].to_string()));
                fields.push(("arp_tpa".to_string(), f[6].to_string()));
            }
        } else {
            for (i, k) in CI_KEYS.iter().enumerate() {
                fields.push((k.to_string(), f[3 + i].to_string()));
            }
        }
        v.push(Ev { layer: layer.to_string(), verb: verb.to_string(), fields });
    }
    Ok(v)
}

/// key=value pairs of one logfmt line; a value may be a double-quoted string (with backslash
/// escapes) and may then hold blanks
fn logfmt_pairs(line: &str) -> Result<Vec<(String, String)>, String> {
    let b: Vec<char> = line.chars().collect();
    let mut kv = Vec::new();
    let mut i = 0;
    while i < b.len() {
        if b[i].is_whitespace() {
            i += 1;
            continue;
        }
        let ks = i;
        while i < b.len() && b[i] != '=' && !b[i].is_whitespace() {
            i += 1;
        }
        if i >= b.len() || b[i] != '=' || i == ks {
            return Err(format!("token {:?} is not key=value in line {:?}", b[ks..i.min(b.len())].iter().collect::<String>(), line));
        }
        let key: String = b[ks..i].iter().collect();
        i += 1;
        let mut val = String::new();
        if i < b.len() && b[i] == '"' {
            i += 1;
            let mut closed = false;
            while i < b.len() {
                if b[i] == '\\' && i + 1 < b.len() {
                    val.push(b[i + 1]);
                    i += 2;
                } else if b[i] == '"' {
                    closed = true;
                    i += 1;
                    break;
                } else {
                    val.push(b[i]);
                    i += 1;
                }
            }
            if !closed {
                return Err(format!("unterminated quoted value of key {:?} in line {:?}", key, line));
            }
            if i < b.len() && !b[i].is_whitespace() {
                return Err(format!("bytes behind the closing quote of key {:?} in line {:?}", key, line));
            }
        } else {
            while i < b.len() && !b[i].is_whitespace() {
                val.push(b[i]);
                i += 1;
            }
        }
        kv.push((key, val));
    }
    Ok(kv)
}

pub fn parse_logfmt(text: &str) -> Result<Vec<Ev>, String> {
    let mut v = Vec::new();
    if !text.is_empty() && !text.ends_with('\n') {
        return Err("output does not end with a newline (incomplete line)".to_string());
    }
    for line in text.lines() {
        let kv: Vec<(String, String)> = logfmt_pairs(line)?;
        let get = |k: &str| kv.iter().find(|(a, _)| a == k).map(|(_, b)| b.clone());
        let ts = get("ts").ok_or_else(|| format!("no ts= in line {:?}", line))?;
        if ts.is_empty() {
            return Err(format!("empty ts in line {:?}", line));
        }
        let layer = get("proto").ok_or_else(|| format!("no proto= in line {:?}", line))?;
        let verb = get("verb").ok_or_else(|| format!("no verb= in line {:?}", line))?;
        if !["arp", "eth", "ipv4", "ipv6", "icmpv4", "icmpv6", "tcp", "udp"].contains(&layer.as_str()) {
            return Err(format!("unknown proto {:?} in line {:?}", layer, line));
        }
        if !["recv", "send", "drop"].contains(&verb.as_str()) {
            return Err(format!("unknown verb {:?} in line {:?}", verb, line));
        }
        // further keys are the format's business; the known ones must be there, once
        let required: &[&str] = match layer.as_str() {
            "arp" => &["mac_src", "mac_dst", "ip_src", "ip_dst", "op"],
            "eth" => &["mac_src", "mac_dst", "eth_type"],
            "ipv4" | "ipv6" => &["mac_src", "mac_dst", "ip_src", "ip_dst", "next_proto"],
            "icmpv4" => &["ip_src", "ip_dst", "icmp_type", "icmp_code"],
            "icmpv6" => &["ip_src", "ip_dst", "icmpv6_type", "icmpv6_code"],
            "tcp" => &["ip_src", "ip_dst", "port_src", "port_dst", "flags", "seq", "ack"],
            _ => &["ip_src", "ip_dst", "port_src", "port_dst"],
        };
        for k in required {
            if get(k).is_none() {
                return Err(format!("{} {} line lacks {}=: {:?}", layer, verb, k, line));
            }
        }
        let mut seen = std::collections::HashSet::new();
        for (k, _) in &kv {
            if !seen.insert(k.clone()) {
                return Err(format!("key {:?} twice in line {:?}", k, line));
            }
        }
        let mut fields = Vec::new();
        for (k, val) in &kv {
            if layer == "arp" {
                if verb == "send" {
                    if k.starts_with("mac_") {
                        fields.push(("mac".to_string(), val.clone()));
                    } else if k.starts_with("ip_") {
                        fields.push(("ip".to_string(), val.clone()));
                    }
                } else {
                    // src = sender, dst = target of the received ARP message
                    match k.as_str() {
                        "mac_src" => fields.push(("arp_sha".to_string(), val.clone())),
                        "mac_dst" => fields.push(("arp_tha".to_string(), val.clone())),
                        "ip_src" => fields.push(("arp_spa".to_string(), val.clone())),
                        "ip_dst" => fields.push(("arp_tpa".to_string(), val.clone())),
                        _ => {}
                    }
                }
            } else if CI_KEYS.contains(&k.as_str()) {
                fields.push((k.clone(), val.clone()));
            }
        }
        v.push(Ev { layer, verb, fields });
    }
    Ok(v)
}

/// Reference: which layers does the frame reach? Returns (certain layers, optional extra layer
/// that an implementation may or may not enter: ICMPv6 other than NS to a foreign destination).
pub fn reached(cfg: &Cfg, f: &[u8]) -> (Vec<&'static str>, Option<&'static str>) {
    let v = match view_request(f) {
        Some(v) => v,
        None => return (vec![], None),
    };
    let mut r = vec!["eth"];
    if !auth_macs(cfg).contains(&v.dst) {
        return (r, None);
    }
    match v.ethertype {
        ET_ARP => {
            if f.len() - 14 >= 28 {
                r.push("arp");
            }
        }
        ET_V4 | ET_V6 => {
            let ip = match &v.ip {
                Some(ip) => ip,
                None => return (r, None),
            };
            let v4 = ip.v == 4;
            r.push(if v4 { "ipv4" } else { "ipv6" });
            let handled = cfg.in_self(&ip.dst);
            let denied = cfg.denied(&ip.src);
            let icmp6 = !v4 && ip.proto == P_ICMP6;
            if !handled && !icmp6 {
                return (r, None);
            }
            if denied {
                return (r, None);
            }
            let (name, min): (&'static str, usize) = match ip.proto {
                P_ICMP if v4 => ("icmpv4", 4),
                P_ICMP6 if !v4 => ("icmpv6", 4),
                P_TCP => ("tcp", 20),
                P_UDP => ("udp", 8),
                _ => return (r, None),
            };
            if ip.l4.len() < min {
                return (r, None);
            }
            if icmp6 && !handled {
                if ip.l4[0] == 135 {
                    r.push(name);
                    return (r, None);
                }
                return (r, Some(name));
            }
            r.push(name);
        }
        _ => {}
    }
    (r, None)
}

/// the frame without its IEEE 802.1Q / 802.1ad tags
pub fn strip_vlan(f: &[u8]) -> Vec<u8> {
    let mut g = f.to_vec();
    while g.len() >= 18 && [0x8100u16, 0x88a8, 0x9100].contains(&be16(&g, 12)) {
        g.drain(12..16);
    }
    g
}

/// the layer names a frame's own headers lead to, whatever any layer decides about it
pub fn header_chain(f: &[u8]) -> Vec<&'static str> {
    let mut r = vec![];
    let v = match view_request(f) {
        Some(v) => v,
        None => return r,
    };
    r.push("eth");
    // behind IEEE 802.1Q / 802.1ad tags the same chain may follow (whether the responder looks
    // behind tags is C02's business; the log only has to be faithful to what it did)
    let g = strip_vlan(f);
    let v = if g.len() != f.len() { match view_request(&g) { Some(v) => v, None => return r } } else { v };
    match v.ethertype {
        ET_ARP => r.push("arp"),
        ET_V4 | ET_V6 => {
            let v4 = v.ethertype == ET_V4;
            r.push(if v4 { "ipv4" } else { "ipv6" });
            if let Some(ip) = &v.ip {
                match ip.proto {
                    P_ICMP if v4 => r.push("icmpv4"),
                    P_ICMP6 if !v4 => r.push("icmpv6"),
                    P_TCP => r.push("tcp"),
                    P_UDP => r.push("udp"),
                    _ => {}
                }
            }
        }
        _ => {}
    }
    r
}

pub fn judge_events(cfg: &Cfg, f: &[u8], evs: &[Ev], replied: Option<&Vec<u8>>) -> Check {
    let (must, may) = reached(cfg, f);
    let seq: Vec<String> = evs.iter().map(|e| format!("{}:{}", e.layer, e.verb)).collect();
    let ctx = || format!("frame {} ; events {:?} ; reply {}", hex(&f[..f.len().min(120)]), seq, if replied.is_some() { "yes" } else { "no" });
    if must.is_empty() {
        vensure!(evs.is_empty(), "a frame shorter than an Ethernet header reaches no layer but events were logged: {}", ctx());
        return Ok(());
    }
    // recv / terminal balance, properly nested
    let mut stack: Vec<&str> = Vec::new();
    let mut recvd: Vec<&str> = Vec::new();
    let mut closed: Vec<&str> = Vec::new();
    for e in evs {
        if e.verb == "recv" {
            vensure!(!recvd.contains(&e.layer.as_str()), "layer {} logs 'recv' twice: {}", e.layer, ctx());
            vensure!(closed.is_empty(), "'recv' of layer {} after a terminal event (not nested from Ethernet inwards): {}", e.layer, ctx());
            stack.push(e.layer.as_str());
            recvd.push(e.layer.as_str());
        } else {
            match stack.pop() {
                Some(top) if top == e.layer => closed.push(top),
                Some(top) => vfail!("terminal event of layer {} while layer {} is still open (terminals must come in reverse order of the recvs, exactly one each): {}", e.layer, top, ctx()),
                None => vfail!("terminal event '{}' of layer {} without a preceding 'recv' (or a second terminal): {}", e.verb, e.layer, ctx()),
            }
        }
    }
    vensure!(stack.is_empty(), "layer(s) {:?} logged 'recv' but no terminal event ('send' or 'drop'): {}", stack, ctx());
    // which layers a frame reaches is the code's decision (a layer may decline a packet that its
    // successor would have taken): the log can only be held against what is observable —
    // (a) the layers that logged form a prefix of the chain the frame's own headers allow
    //     (Ethernet, then ARP / IPv4 / IPv6 by EtherType, then the transport named by the IP header);
    // (b) a reply frame was built by every layer it consists of: each of them must have logged.
    let mut chain: Vec<&str> = must.clone();
    if let Some(x) = may {
        chain.push(x);
    }
    let full = header_chain(f);
    let chain: Vec<&str> = if full.len() > chain.len() && full[..chain.len()] == chain[..] { full } else { chain };
    vensure!(!recvd.is_empty() && recvd.len() <= chain.len() && recvd[..] == chain[..recvd.len()], "layers that logged {:?} are not a prefix of the layers the frame's headers lead to {:?}: {}", recvd, chain, ctx());
    if let Some(r) = replied {
        for l in header_chain(r) {
            vensure!(recvd.contains(&l), "a reply frame with a {} layer was emitted but layer {} logged nothing (logged: {:?}): {}", l, l, recvd, ctx());
        }
    }
    // Ethernet terminal = send iff a reply was returned
    let eth_term = evs.iter().rev().find(|e| e.layer == "eth" && e.verb != "recv").map(|e| e.verb.as_str());
    vensure!(evs.last().map(|e| e.layer.as_str()) == Some("eth"), "the last event is not the Ethernet terminal: {}", ctx());
    match (eth_term, replied.is_some()) {
        (Some("send"), true) | (Some("drop"), false) => {}
        (t, r) => vfail!("Ethernet terminal event is {:?} but a reply frame was {}: {}", t, if r { "emitted" } else { "not emitted" }, ctx()),
    }
    // printed addresses and ports are those of the frame (looked at behind VLAN tags, if any)
    let untagged = strip_vlan(f);
    let f: &[u8] = &untagged;
    let v = view_request(f).unwrap();
    let mut macs = vec![mac_s(&v.src), mac_s(&v.dst), mac_s(&cfg.mac)];
    let mut ips: Vec<String> = vec![];
    let mut ports: Vec<String> = vec![];
    if let Some(ip) = &v.ip {
        ips.push(ip.src.to_string());
        ips.push(ip.dst.to_string());
        if (ip.proto == P_TCP && ip.l4.len() >= 20) || (ip.proto == P_UDP && ip.l4.len() >= 8) {
            ports.push(be16(&ip.l4, 0).to_string());
            ports.push(be16(&ip.l4, 2).to_string());
        }
    }
    let arp = if v.ethertype == ET_ARP { parse_arp(&f[14..]) } else { None };
    if let Some(a) = &arp {
        macs.push(mac_s(&a.sha));
        macs.push(mac_s(&a.tha));
        ips.push(std::net::Ipv4Addr::from(a.spa).to_string());
        ips.push(std::net::Ipv4Addr::from(a.tpa).to_string());
    }
    // the reply's source port (STUN change-port) is accepted on 'send' lines
    let reply_sport: Option<String> = replied.and_then(|r| decode_reply(r).ok()).and_then(|d| d.udp().map(|u| u.sport).or(d.tcp().map(|t| t.sport))).map(|p| p.to_string());
    for e in evs {
        for (k, val) in &e.fields {
            // an empty column / a "-" placeholder prints no address at all
            if val.is_empty() || val == "-" {
                continue;
            }
            match k.as_str() {
                "arp_sha" | "arp_tha" | "arp_spa" | "arp_tpa" => {
                    if let Some(a) = &arp {
                        let want = match k.as_str() {
                            "arp_sha" => mac_s(&a.sha),
                            "arp_tha" => mac_s(&a.tha),
                            "arp_spa" => std::net::Ipv4Addr::from(a.spa).to_string(),
                            _ => std::net::Ipv4Addr::from(a.tpa).to_string(),
                        };
                        vensure!(*val == want, "{} {} line prints {} = {} but the ARP message's is {}: {}", e.layer, e.verb, k, val, want, ctx());
                    }
                }
                "mac" => vensure!(macs.contains(val), "{} {} line prints MAC {} which is not in the frame: {}", e.layer, e.verb, val, ctx()),
                "ip" => vensure!(ips.contains(val), "{} {} line prints IP {} which is not in the frame: {}", e.layer, e.verb, val, ctx()),
                "mac_src" => vensure!(*val == mac_s(&v.src), "{} {} line prints source MAC {} but the frame's is {}: {}", e.layer, e.verb, val, mac_s(&v.src), ctx()),
                "mac_dst" => vensure!(*val == mac_s(&v.dst), "{} {} line prints destination MAC {} but the frame's is {}: {}", e.layer, e.verb, val, mac_s(&v.dst), ctx()),
                "ip_src" => vensure!(ips.get(0) == Some(val), "{} {} line prints source IP {} but the frame's is {:?}: {}", e.layer, e.verb, val, ips.get(0), ctx()),
                "ip_dst" => vensure!(ips.get(1) == Some(val), "{} {} line prints destination IP {} but the frame's is {:?}: {}", e.layer, e.verb, val, ips.get(1), ctx()),
                "port_src" => vensure!(ports.get(0) == Some(val), "{} {} line prints source port {} but the frame's is {:?}: {}", e.layer, e.verb, val, ports.get(0), ctx()),
                "port_dst" => {
                    let ok = ports.get(1) == Some(val) || (e.verb == "send" && reply_sport.as_ref() == Some(val));
                    vensure!(ok, "{} {} line prints destination port {} but the frame's is {:?}: {}", e.layer, e.verb, val, ports.get(1), ctx());
                }
                _ => {}
            }
        }
    }
    Ok(())
}

pub fn check(c: &Case, st: &mut Stats) -> Check {
    Sut::reset();
    st.eval();
    let mut cfg = c.scn.cfg.clone();
    cfg.logger = c.logger;
    let mut net = c.scn.net.clone();
    if c.deny_client {
        let mut d = cfg.deny.clone().unwrap_or_default();
        d.push(net.cip);
        cfg.deny = Some(d);
    }
    if c.foreign_dst {
        if let Some(s) = &cfg.self_ips {
            let mut o = other_ip(&net.sip, 77);
            let mut guard = 0;
            while s.contains(&o) && guard < 8 {
                o = other_ip(&o, 91);
                guard += 1;
            }
            net.sip = o;
            net.dmac = cfg.mac;
        }
    }
    let sut = Sut::new(&cfg);
    let mut w = World::new(&sut, &net, 41000, 4000);
    // cookie-learning SYNs inside realize()/World print log lines too: drain before each frame
    let _ = capture_take();
    let _ = events_take();
    for it in &c.items {
        let f = match it {
            Item::Step(s) => w.realize(s),
            Item::Req(r) => match realize(&sut, &net, r) {
                Ok(f) => f,
                Err(_) => continue,
            },
        };
        let _ = capture_take();
        let _ = events_take();
        let out = sut.frame(&f);
        st.frames(1);
        if let Out::Panic(p) = &out {
            let _ = capture_take();
            return Err(Failure::keyed(p.key(), format!("panic: {} {}", p.file, p.msg)));
        }
        let evs: Vec<Ev> = match c.logger {
            LoggerKind::Console => {
                let t = String::from_utf8_lossy(&capture_take()).to_string();
                parse_console(&t).map_err(|e| Failure::new(format!("console log not well-formed: {} (frame {})", e, hex(&f[..f.len().min(100)]))))?
            }
            LoggerKind::Logfmt => {
                let t = String::from_utf8_lossy(&capture_take()).to_string();
                parse_logfmt(&t).map_err(|e| Failure::new(format!("logfmt log not well-formed: {} (frame {})", e, hex(&f[..f.len().min(100)]))))?
            }
            _ => events_take().into_iter().map(|e| Ev { layer: e.layer.to_string(), verb: e.verb.to_string(), fields: vec![] }).collect(),
        };
        let path: Vec<String> = evs.iter().filter(|e| e.verb == "recv").map(|e| e.layer.clone()).collect();
        let fate = if out.reply().is_some() { "send" } else { "drop" };
        let key = format!("{}->{}", path.join("/"), fate);
        st.class(&key);
        st.nontrivial(&(key.clone(), f.len() % 7, c.logger));
        st.nontrivial_hash(fnv(&f) ^ c.logger as u64);
        st.sample(|| json!({"logger": format!("{:?}", c.logger), "frame": hex(&f[..f.len().min(80)]), "events": evs.iter().map(|e| format!("{} {}", e.layer, e.verb)).collect::<Vec<_>>()}));
        judge_events(&cfg, &f, &evs, out.reply())?;
    }
    Ok(())
}

impl Prop for C20 {
    fn id(&self) -> &'static str {
        "C20"
    }
    fn rule(&self) -> &'static str {
        "cases = configuration (MAC, self-IP list, deny list; client optionally put on the deny list; traffic optionally addressed outside the self-IP list) x 1..6 frames drawn from the hostile mixture of C01 (raw, unauthorised MAC, unknown EtherType, truncated / lying L3 and L4 headers, every ICMP type/code class, ARP operations, neighbour solicitations in and out of scope, TCP flag classes with accepted / rejected data, UDP with and without an application reply) and from the answerable requests of C03, processed in order by the real reply() with masscanned's own ConsoleLogger, its own LogfmtLogger (stdout captured through a memfd that replaces fd 1) and a structural recording logger. Oracle per frame: every line complete (console: column count per event type, non-empty timestamp, newline-terminated; logfmt: key=value tokens from the expected key set, required keys present, none twice); each layer that logged recv logs exactly one terminal later, terminals in reverse order of the recvs, no second recv; the last event is the Ethernet terminal and it is send iff a reply frame was returned; the layers that logged equal the layers the reference decoder says the frame reached (zero events for frames shorter than 14 bytes); every printed MAC / IP / port equals the frame's (the reply's source port is accepted on send lines for STUN change-port). Non-trivial = every logged frame; distinct by (layer path, fate, logger) and frame hash."
    }
    fn run(&self, ctx: &mut RunCtx) {
        let n = ctx.share(ctx.tier.n(400_000, 4_000_000));
        ctx.run_generated("console", n, case_strategy(LoggerKind::Console), check);
        ctx.run_generated("logfmt", n, case_strategy(LoggerKind::Logfmt), check);
        ctx.run_generated("struct", n, case_strategy(LoggerKind::Struct), check);
    }
    fn replay(&self, _stream: &str, case: &Value, st: &mut Stats) -> Check {
        check(&serde_json::from_value(case.clone()).map_err(|e| Failure::new(format!("bad case: {}", e)))?, st)
    }
}
