// C18 — SSH and Gh0st: banner exchanges are answered exactly, malformed ones are not.

use crate::vf::shadow::{shadow_opt, with_shadow, Shadow};
use proptest::collection::vec;
use proptest::prelude::*;
use serde::{Deserialize, Serialize};
use serde_json::{json, Value};

use crate::vf::codec::{AmbientGuard, IpTweak};
use crate::vf::dec_app::*;
use crate::vf::engine::*;
use crate::vf::gen::*;
use crate::vf::gen_app::*;
use crate::vf::props::c12::app_exchange;
use crate::vf::sut::*;
use crate::vf::util::*;

pub struct C18;

#[derive(Clone, Debug, Serialize, Deserialize, PartialEq)]
pub enum Msg {
    Banner(SshBanner),
    /// every CR LF pair removed (LF-only / lone trailing CR / nothing)
    Unterminated { b: SshBanner, ending: u8 },
    /// a character that is neither digit, dot nor dash in the version field
    BadVersionChar { b: SshBanner, ch: u8 },
    /// no second dash: "SSH-2.0" CR LF
    MissingDash { b: SshBanner },
    Ghost(Hex),
}

#[derive(Clone, Debug, Serialize, Deserialize, PartialEq)]
pub struct Case {
    pub scn: Scenario,
    pub sport: u16,
    pub dport: u16,
    pub tcp: bool,
    pub msg: Msg,
    /// IP / TCP header fields the responder is not documented to look at
    #[serde(default)]
    pub tweak: Option<IpTweak>,
    /// sibling traffic sent before every frame of the case (vf/shadow.rs)
    #[serde(default)]
    pub shadow: Option<Shadow>,
}

pub fn case_strategy() -> impl Strategy<Value = Case> {
    (case_strategy0(), shadow_opt()).prop_map(|(mut c, sh)| {
        c.shadow = sh;
        c
    })
}

fn case_strategy0() -> impl Strategy<Value = Case> {
    let msg = prop_oneof![
        6 => ssh_banner().prop_map(Msg::Banner),
        3 => (ssh_banner(), 0u8..4).prop_map(|(b, ending)| Msg::Unterminated { b, ending }),
        2 => (ssh_banner(), prop::sample::select(vec![b'a', b'_', b' ', b'/', 0u8, 0xc3u8, b'\n'])).prop_map(|(b, ch)| Msg::BadVersionChar { b, ch }),
        1 => ssh_banner().prop_map(|b| Msg::MissingDash { b }),
        3 => ghost_req().prop_map(Msg::Ghost),
    ];
    (scenario(Fam::Any), port(), port(), any::<bool>(), msg, prop::option::weighted(0.25, crate::vf::props::c03::ip_tcp_tweak())).prop_map(|(mut scn, sport, dport, tcp, msg, tweak)| {
        scn.cfg.logger = LoggerKind::None;
        Case { shadow: None, scn, sport, dport, tcp, msg, tweak }
    })
}

fn has_crlf(v: &[u8]) -> bool {
    v.windows(2).any(|w| w == b"\r\n")
}

pub fn check(c: &Case, st: &mut Stats) -> Check {
    with_shadow(&c.shadow, st, |st| check0(c, st))
}

fn check0(c: &Case, st: &mut Stats) -> Check {
    Sut::reset();
    st.eval();
    let _ambient = AmbientGuard::set(&c.tweak);
    let sut = Sut::new(&c.scn.cfg);
    let (bytes, expect, kind): (Vec<u8>, Option<bool>, &str) = match &c.msg {
        Msg::Banner(b) => (b.bytes(), Some(true), "banner"),
        Msg::Unterminated { b, ending } => {
            let mut v = b.head();
            // remove every CR LF pair by construction
            for i in 0..v.len().saturating_sub(1) {
                if v[i] == b'\r' && v[i + 1] == b'\n' {
                    v[i + 1] = b'x';
                }
            }
            if v.last() == Some(&b'\r') {
                v.push(b'x');
            }
            match ending {
                0 => {}
                1 => v.push(b'\n'),
                2 => v.push(b'\r'),
                _ => v.extend_from_slice(b"\n\n"),
            }
            (v, Some(false), "unterminated")
        }
        Msg::BadVersionChar { b, ch } => {
            let mut v = b"SSH-".to_vec();
            v.extend_from_slice(if b.v199 { b"1.99" } else { b"2.0" });
            v.push(*ch);
            v.extend_from_slice(&b.bytes()[v.len() - 1..]);
            (v, Some(false), "bad-version-char")
        }
        Msg::MissingDash { b } => {
            let mut v = b"SSH-".to_vec();
            v.extend_from_slice(if b.v199 { b"1.99" } else { b"2.0" });
            v.extend_from_slice(b.vtail.as_bytes());
            v.extend_from_slice(b"\r\n");
            v.extend_from_slice(&b.tail);
            (v, Some(false), "missing-dash")
        }
        Msg::Ghost(g) => (g.0.clone(), None, "gh0st"),
    };
    st.frames(if c.tcp { 2 } else { 1 });
    let app = app_exchange(&sut, &c.scn.net, c.tcp, c.sport, c.dport, &bytes)?;
    let tr = if c.tcp { "tcp" } else { "udp" };
    st.class(&format!("{}:{}", kind, tr));
    st.nontrivial_hash(fnv(&bytes) ^ c.tcp as u64);
    let show = || format!("{:?}", String::from_utf8_lossy(&bytes[..bytes.len().min(120)]));
    match expect {
        Some(true) => {
            if let Msg::Banner(b) = &c.msg {
                if b.software.contains(&b'\r') || b.comment.as_ref().map(|c| c.contains(&b'\r')).unwrap_or(false) {
                    st.class("banner:lone-CR-inside");
                }
                if b.comment.is_some() {
                    st.class("banner:with-comment");
                }
            }
            match app {
                Some(a) => {
                    st.sample(|| json!({"banner": String::from_utf8_lossy(&bytes[..bytes.len().min(80)]), "transport": tr, "reply": String::from_utf8_lossy(&a)}));
                    vensure!(a == b"SSH-2.0-1\r\n", "identification string answered with {:?} instead of exactly \"SSH-2.0-1\\r\\n\" (sent {})", String::from_utf8_lossy(&a[..a.len().min(60)]), show());
                    Ok(())
                }
                None => vfail!("well-formed identification string not answered over {}: {}", tr, show()),
            }
        }
        Some(false) => {
            if kind == "unterminated" && has_crlf(&bytes) {
                return Ok(()); // cannot happen by construction
            }
            match app {
                None => Ok(()),
                Some(a) => vfail!("{} identification string answered over {}: {} -> {:?}", kind, tr, show(), String::from_utf8_lossy(&a[..a.len().min(40)])),
            }
        }
        None => {
            let a = match app {
                Some(a) => a,
                None => vfail!("payload starting with the Gh0st magic not answered over {}: {}", tr, hex(&bytes[..bytes.len().min(40)])),
            };
            st.sample(|| json!({"gh0st_request_len": bytes.len(), "reply": hex(&a)}));
            ghost_reply_ok(&a)
        }
    }
}

pub fn ghost_reply_ok(a: &[u8]) -> Check {
    vensure!(a.starts_with(b"Gh0st"), "Gh0st reply does not start with the magic: {}", hex(&a[..a.len().min(40)]));
    vensure!(a.len() >= 13, "Gh0st reply shorter than its header ({} bytes)", a.len());
    let total = le32(a, 5) as usize;
    let ulen = le32(a, 9) as usize;
    vensure!(total == a.len(), "Gh0st frame declares total length {} but is {} bytes long", total, a.len());
    let body = inflate(&a[13..]).map_err(|e| Failure::new(format!("Gh0st body does not inflate: {} ({})", e, hex(a))))?;
    vensure!(body.len() == ulen, "Gh0st frame declares {} uncompressed bytes, body inflates to {}", ulen, body.len());
    Ok(())
}

// ---------------------------------------------------------------------------------------
// Gh0st connections: the bot keeps talking on the connection it opened; every packet that
// starts with the magic is a payload starting with the magic

#[derive(Clone, Debug, Serialize, Deserialize, PartialEq)]
pub struct GhostFlow {
    pub scn: Scenario,
    pub sport: u16,
    pub dport: u16,
    pub pkts: Vec<Hex>,
}

pub fn ghost_flow_check(c: &GhostFlow, st: &mut Stats) -> Check {
    use crate::vf::session::*;
    Sut::reset();
    st.eval();
    let sut = Sut::new(&c.scn.cfg);
    let mut stream = Vec::new();
    let mut lens = Vec::new();
    for p in &c.pkts {
        lens.push(p.len());
        stream.extend_from_slice(p);
    }
    let flow = Flow { net: c.scn.net.clone(), sport: c.sport, dport: c.dport };
    st.frames(1 + lens.len() as u64);
    let replies = deliver(&sut, &flow, 99, &stream, &lens).map_err(Failure::new)?;
    st.class(&format!("gh0st-connection:{}-packets", c.pkts.len()));
    st.nontrivial_hash(fnv(&stream) ^ 0x6805);
    for (i, rp) in replies.iter().enumerate() {
        match rp {
            SegReply::Data(a) => ghost_reply_ok(a).map_err(|f| Failure::new(format!("packet #{} of the connection: {}", i, f.msg)))?,
            SegReply::Other(o) if o.starts_with("panic") => return Err(Failure::keyed("panic", o.clone())),
            other => vfail!("packet #{} of a Gh0st connection (a payload starting with the magic) not answered: {:?}; packet {}", i, other, hex(&c.pkts[i][..c.pkts[i].len().min(40)])),
        }
    }
    Ok(())
}

// ---------------------------------------------------------------------------------------
// flows: what follows the identification exchange is not an identification string

#[derive(Clone, Debug, Serialize, Deserialize, PartialEq)]
pub struct FlowCase {
    pub scn: Scenario,
    pub sport: u16,
    pub dport: u16,
    /// first segment: a valid identification string (tail dropped) or one without any CR / LF
    pub first: SshBanner,
    pub first_valid: bool,
    /// later segments: bytes without CR and LF (binary packets, key-exchange-looking records,
    /// text), so that no line — hence no identification string — can end inside them
    pub later: Vec<Hex>,
}

fn no_line_end(mut v: Vec<u8>) -> Vec<u8> {
    for b in v.iter_mut() {
        if *b == b'\r' || *b == b'\n' {
            *b = 0x7f;
        }
    }
    v
}

pub fn flow_strategy() -> impl Strategy<Value = FlowCase> {
    let later = prop_oneof![
        // SSH binary packet: length, padding length, message code (20 = KEXINIT), payload
        3 => (vec(any::<u8>(), 16..200), prop::sample::select(vec![20u8, 30, 21, 1, 2])).prop_map(|(body, code)| {
            let mut v = ((body.len() + 2) as u32).to_be_bytes().to_vec();
            v.push(4);
            v.push(code);
            v.extend_from_slice(&body);
            Hex(no_line_end(v))
        }),
        2 => vec(any::<u8>(), 1..80).prop_map(|v| Hex(no_line_end(v))),
        2 => "SSH-2\\.0-[A-Za-z0-9_.]{1,20}( [ -~]{0,20})?".prop_map(|s| Hex(s.into_bytes())),
        1 => "[ -~]{1,40}".prop_map(|s| Hex(s.into_bytes())),
    ];
    (scenario_levels(Fam::Any), port(), port(), ssh_banner(), prop::bool::weighted(0.8), vec(later, 1..=4)).prop_map(|(scn, sport, dport, mut first, first_valid, later)| {
        first.tail = Hex(vec![]);
        FlowCase { scn, sport, dport, first, first_valid, later }
    })
}

pub fn flow_check(c: &FlowCase, st: &mut Stats) -> Check {
    use crate::vf::session::*;
    Sut::reset();
    st.eval();
    let sut = Sut::new(&c.scn.cfg);
    let first: Vec<u8> = if c.first_valid { c.first.bytes() } else { no_line_end(c.first.head()) };
    let mut stream = first.clone();
    let mut lens = vec![first.len()];
    for l in &c.later {
        lens.push(l.len());
        stream.extend_from_slice(l);
    }
    let flow = Flow { net: c.scn.net.clone(), sport: c.sport, dport: c.dport };
    st.frames(1 + lens.len() as u64);
    let replies = deliver(&sut, &flow, 4711, &stream, &lens).map_err(Failure::new)?;
    st.class(&format!("flow:first-{}:{}-later-segments", if c.first_valid { "valid" } else { "unterminated" }, c.later.len()));
    st.nontrivial_hash(fnv(&stream));
    let mut off = 0usize;
    for (i, rp) in replies.iter().enumerate() {
        let seg = &stream[off..off + lens[i]];
        off += lens[i];
        let show = || format!("{:?}", String::from_utf8_lossy(&seg[..seg.len().min(80)]));
        match rp {
            SegReply::Data(p) if i == 0 && c.first_valid => {
                vensure!(p == b"SSH-2.0-1\r\n", "identification string answered with {:?} (sent {})", String::from_utf8_lossy(&p[..p.len().min(60)]), show());
            }
            SegReply::Data(p) => {
                vensure!(!p.starts_with(b"SSH-"), "segment #{} of the flow holds no line end, hence no identification string, but was answered with {:?}: {} (first segment {:?})", i, String::from_utf8_lossy(&p[..p.len().min(40)]), show(), String::from_utf8_lossy(&first[..first.len().min(60)]));
            }
            SegReply::Ack | SegReply::Silence => {
                if i == 0 && c.first_valid {
                    vfail!("well-formed identification string not answered over tcp: {}", show());
                }
            }
            SegReply::Other(o) => {
                if o.starts_with("panic") {
                    return Err(Failure::keyed("panic", format!("segment #{}: {}", i, o)));
                }
            }
        }
    }
    st.sample(|| json!({"first": String::from_utf8_lossy(&first[..first.len().min(60)]), "later_lens": c.later.iter().map(|l| l.len()).collect::<Vec<_>>()}));
    Ok(())
}

impl Prop for C18 {
    fn id(&self) -> &'static str {
        "C18"
    }
    fn rule(&self) -> &'static str {
        "cases = client identification strings 'SSH-' ('2.0'|'1.99') [0-9.]* '-' software [SP comment] CR LF [tail] with software 1..79 and comment 0..79 arbitrary bytes (NUL, high bytes, lone CR at every position, bare LF; SP switches to the comment), over UDP and over one segment of a handshaken TCP flow, both IP versions, log levels Off..Trace; negatives: every CR LF pair removed (nothing / LF only / trailing lone CR / LF LF), a character other than digit, dot or dash in the version field, missing second dash; Gh0st magic + 0..299 arbitrary bytes, Gh0st header with consistent / lying length fields, and real client packets (header + zlib stream of a command token followed by 0..419 structure bytes, login token 0x66 weighted, compression levels 0..9). Flows: a valid identification string followed on the same TCP flow by 1..4 segments that hold no CR and no LF (binary packets with KEXINIT-like framing, text, 'SSH-2.0-...' without line end), or an unterminated first segment followed by the same: only the identification string may be answered with an SSH banner. Gh0st connections: 2..3 packets, one per segment of one connection, each answered with a valid frame. Oracle: positive => application reply exactly 'SSH-2.0-1\\r\\n'; negative => none; Gh0st => reply starts with the magic, LE32 at offset 5 = frame length, LE32 at offset 9 = U, zlib-inflating the remainder (flate2's decoder, whole input consumed) yields exactly U bytes. Non-trivial = every case; distinct by hash of (bytes, transport). Shadow traffic (vf/shadow.rs): three cases in ten process, before every frame of the case, a sibling of that frame whose result is discarded — the same frame again, or one tuple element (source / destination port, source / destination address, source MAC), one payload bit or the payload length changed; TCP conversations are shadowed whole on a sibling flow validated with its own cookie; sound by the statement of C08, cases whose own flows meet a shadow tuple are excluded and counted."
    }
    fn run(&self, ctx: &mut RunCtx) {
        let n = ctx.share(ctx.tier.n(2_000_000, 16_000_000));
        ctx.run_generated("banner", n, case_strategy(), check);
        let m = ctx.share(ctx.tier.n(600_000, 5_000_000));
        ctx.run_generated("flow", m, flow_strategy(), flow_check);
        let g = ctx.share(ctx.tier.n(300_000, 3_000_000));
        ctx.run_generated("gh0st-flow", g, (scenario_levels(Fam::Any), port(), port(), vec(ghost_req(), 2..=3)).prop_map(|(scn, sport, dport, pkts)| GhostFlow { scn, sport, dport, pkts }), ghost_flow_check);
    }
    fn replay(&self, stream: &str, case: &Value, st: &mut Stats) -> Check {
        let bad = |e: serde_json::Error| Failure::new(format!("bad case: {}", e));
        match stream {
            "flow" => flow_check(&serde_json::from_value(case.clone()).map_err(bad)?, st),
            "gh0st-flow" => ghost_flow_check(&serde_json::from_value(case.clone()).map_err(bad)?, st),
            _ => check(&serde_json::from_value(case.clone()).map_err(bad)?, st),
        }
    }
}
