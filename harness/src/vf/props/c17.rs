// C17 — SMB1/SMB2: negotiate/session-setup replies framed, correlated, consistent.

use crate::vf::shadow::{shadow_opt, with_shadow, Shadow};
use proptest::prelude::*;
use serde::{Deserialize, Serialize};
use serde_json::{json, Value};

use crate::vf::codec::{AmbientGuard, IpTweak};
use crate::vf::dec_app::*;
use crate::vf::engine::*;
use crate::vf::gen::*;
use crate::vf::gen_app::*;
use crate::vf::props::c12::app_exchange;
use crate::vf::sut::*;
use crate::vf::util::*;

pub struct C17;

#[derive(Clone, Debug, Serialize, Deserialize, PartialEq)]
pub enum Fault {
    None,
    ReplyFlag,
    /// SMB1: command byte; SMB2: command word
    OtherCommand(u16),
}

#[derive(Clone, Debug, Serialize, Deserialize, PartialEq)]
pub struct Case {
    pub scn: Scenario,
    pub sport: u16,
    pub dport: u16,
    pub req: SmbReq,
    pub fault: Fault,
    /// IP / TCP header fields the responder is not documented to look at
    #[serde(default)]
    pub tweak: Option<IpTweak>,
    /// sibling traffic sent before every frame of the case (vf/shadow.rs)
    #[serde(default)]
    pub shadow: Option<Shadow>,
}

pub fn case_strategy() -> impl Strategy<Value = Case> {
    (case_strategy0(), shadow_opt()).prop_map(|(mut c, sh)| {
        c.shadow = sh;
        c
    })
}

fn case_strategy0() -> impl Strategy<Value = Case> {
    let fault = prop_oneof![
        6 => Just(Fault::None),
        2 => Just(Fault::ReplyFlag),
        3 => prop_oneof![2 => 0u16..=0x12, 2 => 0x70u16..0x76, 1 => any::<u16>()].prop_map(Fault::OtherCommand),
    ];
    (scenario_levels(Fam::Any), port(), port(), smb_req(), fault, prop::option::weighted(0.25, crate::vf::props::c03::ip_tcp_tweak())).prop_map(|(scn, sport, dport, req, fault, tweak)| Case { shadow: None, scn, sport, dport, req, fault, tweak })
}

fn smb1_common(a: &[u8], hdr: &Smb1Hdr, cmd: u8) -> Result<usize, Failure> {
    // returns offset of the parameter block (WordCount)
    vensure!(a.len() >= 4 + 32 + 3, "SMB1 response too short ({} bytes)", a.len());
    vensure!(a[0] == 0, "NetBIOS message type {:#x}", a[0]);
    let nb = (((a[1] & 1) as usize) << 16) | be16(a, 2) as usize;
    vensure!(nb == a.len() - 4, "NetBIOS length {} but {} bytes follow", nb, a.len() - 4);
    vensure!(&a[4..8] == b"\xffSMB", "SMB1 magic missing");
    vensure!(a[8] == cmd, "command {:#x} not echoed (got {:#x})", cmd, a[8]);
    vensure!(a[13] & 0x80 != 0, "reply flag not set (flags {:#x})", a[13]);
    vensure!(le16(a, 16) == hdr.pid_high, "PIDHigh not echoed: sent {:#x} got {:#x}", hdr.pid_high, le16(a, 16));
    vensure!(le16(a, 28) == hdr.tid, "TID not echoed: sent {:#x} got {:#x}", hdr.tid, le16(a, 28));
    vensure!(le16(a, 30) == hdr.pid_low, "PIDLow not echoed: sent {:#x} got {:#x}", hdr.pid_low, le16(a, 30));
    vensure!(le16(a, 32) == hdr.uid, "UID not echoed: sent {:#x} got {:#x}", hdr.uid, le16(a, 32));
    vensure!(le16(a, 34) == hdr.mid, "MID not echoed: sent {:#x} got {:#x}", hdr.mid, le16(a, 34));
    Ok(36)
}

fn smb2_common(a: &[u8], hdr: &Smb2Hdr, cmd: u16) -> Result<usize, Failure> {
    vensure!(a.len() >= 4 + 64 + 2, "SMB2 response too short ({} bytes)", a.len());
    vensure!(a[0] == 0, "NetBIOS message type {:#x}", a[0]);
    let nb = (((a[1] & 1) as usize) << 16) | be16(a, 2) as usize;
    vensure!(nb == a.len() - 4, "NetBIOS length {} but {} bytes follow", nb, a.len() - 4);
    let h = &a[4..];
    vensure!(&h[0..4] == b"\xfeSMB", "SMB2 magic missing");
    vensure!(le16(h, 4) == 64, "SMB2 header StructureSize {}", le16(h, 4));
    vensure!(le16(h, 12) == cmd, "command {} not echoed (got {})", cmd, le16(h, 12));
    vensure!(le32(h, 16) & 1 != 0, "response flag not set (flags {:#x})", le32(h, 16));
    vensure!(le64(h, 24) == hdr.message_id, "MessageId not echoed: sent {:#x} got {:#x}", hdr.message_id, le64(h, 24));
    vensure!(le64(h, 32) == hdr.async_id, "AsyncId not echoed: sent {:#x} got {:#x}", hdr.async_id, le64(h, 32));
    vensure!(le64(h, 40) == hdr.session_id, "SessionId not echoed: sent {:#x} got {:#x}", hdr.session_id, le64(h, 40));
    Ok(4 + 64)
}

/// the security blobs the responder sends are GSS-API / SPNEGO tokens, i.e. one DER element:
/// "the security blob actually present" ends where that element ends
fn der_total(b: &[u8]) -> Option<usize> {
    if b.len() < 2 {
        return None;
    }
    match b[1] {
        l if l < 0x80 => Some(2 + l as usize),
        0x81 if b.len() >= 3 => Some(3 + b[2] as usize),
        0x82 if b.len() >= 4 => Some(4 + be16(b, 2) as usize),
        _ => None,
    }
}

fn blob_consistent(blob: &[u8], what: &str) -> Check {
    if blob.is_empty() {
        return Ok(());
    }
    match der_total(blob) {
        Some(t) => {
            vensure!(t == blob.len(), "{} announces {} bytes but the security blob present (one DER element, tag {:#04x}) is {} bytes long", what, blob.len(), blob[0], t);
            Ok(())
        }
        None => vfail!("{}: security blob is not a DER element ({})", what, hex(&blob[..blob.len().min(16)])),
    }
}

pub fn check_response(req: &SmbReq, a: &[u8]) -> Check {
    match req {
        SmbReq::Smb1Negotiate { hdr, dialects } => {
            let p = smb1_common(a, hdr, 0x72)?;
            vensure!(a[p] == 17, "Negotiate response WordCount {}", a[p]);
            vensure!(a.len() >= p + 1 + 34 + 2, "Negotiate response truncated");
            let idx = le16(a, p + 1) as usize;
            vensure!(idx < dialects.len(), "DialectIndex {} but the client offered {} dialects", idx, dialects.len());
            let bc = le16(a, p + 1 + 34) as usize;
            vensure!(bc == a.len() - (p + 1 + 34 + 2), "ByteCount {} but {} bytes follow", bc, a.len() - (p + 1 + 34 + 2));
            Ok(())
        }
        SmbReq::Smb1SessionSetup { hdr, .. } => {
            let p = smb1_common(a, hdr, 0x73)?;
            vensure!(a[p] == 4, "Session Setup response WordCount {}", a[p]);
            vensure!(a.len() >= p + 1 + 8 + 2, "Session Setup response truncated");
            let blob = le16(a, p + 1 + 6) as usize;
            let bc = le16(a, p + 1 + 8) as usize;
            vensure!(bc == a.len() - (p + 1 + 8 + 2), "ByteCount {} but {} bytes follow", bc, a.len() - (p + 1 + 8 + 2));
            vensure!(blob <= bc, "SecurityBlobLength {} exceeds ByteCount {}", blob, bc);
            let start = p + 1 + 8 + 2;
            blob_consistent(&a[start..start + blob], "SecurityBlobLength")
        }
        SmbReq::Smb2Negotiate { hdr, dialects, .. } => {
            let p = smb2_common(a, hdr, 0)?;
            vensure!(le16(a, p) == 65, "Negotiate response StructureSize {}", le16(a, p));
            vensure!(a.len() >= p + 64, "Negotiate response truncated");
            let rev = le16(a, p + 4);
            vensure!(dialects.contains(&rev), "DialectRevision {:#06x} was not offered ({:x?})", rev, dialects);
            let off = le16(a, p + 56) as usize;
            let len = le16(a, p + 58) as usize;
            vensure!(off == 64 + 64, "SecurityBufferOffset {:#x}: the blob starts at {:#x} of the SMB2 message", off, 128);
            vensure!(4 + off + len <= a.len(), "SecurityBufferOffset {} + Length {} = {} but the SMB2 message has {} bytes", off, len, off + len, a.len() - 4);
            blob_consistent(&a[4 + off..4 + off + len], "SecurityBufferLength")?;
            // what follows the blob can only be negotiate contexts (8-byte aligned, announced by
            // NegotiateContextOffset / Count) — nothing the blob length may swallow
            let ctx_off = le32(a, p + 60) as usize;
            let ctx_cnt = le16(a, p + 6) as usize;
            if 4 + off + len != a.len() {
                vensure!(ctx_cnt > 0 && ctx_off >= off + len && 4 + ctx_off <= a.len(), "{} bytes follow the security blob but NegotiateContextCount / Offset ({} / {}) do not announce them", a.len() - 4 - off - len, ctx_cnt, ctx_off);
            }
            Ok(())
        }
        SmbReq::Smb2SessionSetup { hdr, .. } => {
            let p = smb2_common(a, hdr, 1)?;
            vensure!(le16(a, p) == 9, "Session Setup response StructureSize {}", le16(a, p));
            vensure!(a.len() >= p + 8, "Session Setup response truncated");
            let off = le16(a, p + 4) as usize;
            let len = le16(a, p + 6) as usize;
            vensure!(off == 64 + 8, "SecurityBufferOffset {:#x}: the blob starts at {:#x} of the SMB2 message", off, 72);
            vensure!(4 + off + len == a.len(), "SecurityBufferOffset {} + Length {} but the SMB2 message has {} bytes", off, len, a.len() - 4);
            blob_consistent(&a[4 + off..4 + off + len], "SecurityBufferLength")
        }
    }
}

/// the message bytes with the fault applied; None = the fault leaves the positive domain
/// unchanged (command equal to the original one)
fn faulted(req: &SmbReq, fault: &Fault) -> Option<(Vec<u8>, bool)> {
    let mut bytes = req.bytes();
    let smb1 = req.is_smb1();
    let mut negative = false;
    match fault {
        Fault::None => {}
        Fault::ReplyFlag => {
            if smb1 {
                bytes[4 + 9] |= 0x80;
            } else {
                bytes[4 + 16] |= 1;
            }
            negative = true;
        }
        Fault::OtherCommand(cmd) => {
            if smb1 {
                let cb = *cmd as u8;
                if cb == 0x72 || cb == 0x73 {
                    return None;
                }
                bytes[4 + 4] = cb;
            } else {
                if *cmd == 0 || *cmd == 1 {
                    return None;
                }
                bytes[4 + 12] = *cmd as u8;
                bytes[4 + 13] = (*cmd >> 8) as u8;
            }
            negative = true;
        }
    }
    Some((bytes, negative))
}

fn kind_of(req: &SmbReq) -> &'static str {
    match req {
        SmbReq::Smb1Negotiate { .. } => "smb1-negotiate",
        SmbReq::Smb1SessionSetup { .. } => "smb1-session-setup",
        SmbReq::Smb2Negotiate { .. } => "smb2-negotiate",
        SmbReq::Smb2SessionSetup { .. } => "smb2-session-setup",
    }
}

/// verdict on the application reply `app` (None = not answered) to one message
fn judge(req: &SmbReq, fault: &Fault, bytes: &[u8], negative: bool, app: &Option<Vec<u8>>, st: &mut Stats) -> Check {
    let kind = kind_of(req);
    let show = || hex(&bytes[..bytes.len().min(160)]);
    if negative {
        return match app {
            None => Ok(()),
            Some(a) => vfail!("{} with {:?} answered: {} -> {}", kind, fault, show(), hex(&a[..a.len().min(120)])),
        };
    }
    // SMB2 negotiate without any supported dialect: no reply
    if let SmbReq::Smb2Negotiate { dialects, .. } = req {
        if !dialects.iter().any(|d| SMB2_SUPPORTED.contains(d)) {
            st.class("smb2-negotiate:no-supported-dialect");
            return match app {
                None => Ok(()),
                Some(a) => vfail!("SMB2 Negotiate offering no supported dialect ({:x?}) answered: {}", dialects, hex(&a[..a.len().min(120)])),
            };
        }
    }
    let dup = req.has_dup_dialects();
    if dup {
        st.class("smb2-negotiate:duplicate-dialects");
    }
    let res: Check = (|| {
        let a = match app {
            Some(a) => a,
            None => vfail!("{} request not answered: {}", kind, show()),
        };
        st.sample(|| json!({"request": kind, "bytes": hex(&bytes[..bytes.len().min(100)]), "response_head": hex(&a[..a.len().min(80)])}));
        check_response(req, a).map_err(|f| Failure::new(format!("{} [{} {} -> {}]", f.msg, kind, show(), hex(&a[..a.len().min(200)]))))
    })();
    match res {
        Err(f) if dup => Err(Failure::keyed("smb2-duplicate-dialects", f.msg)),
        other => other,
    }
}

pub fn check(c: &Case, st: &mut Stats) -> Check {
    with_shadow(&c.shadow, st, |st| check0(c, st))
}

fn check0(c: &Case, st: &mut Stats) -> Check {
    Sut::reset();
    st.eval();
    let _ambient = AmbientGuard::set(&c.tweak);
    let sut = Sut::new(&c.scn.cfg);
    let (bytes, negative) = match faulted(&c.req, &c.fault) {
        Some(x) => x,
        None => return Ok(()),
    };
    st.frames(2);
    let app = app_exchange(&sut, &c.scn.net, true, c.sport, c.dport, &bytes)?;
    st.class(&format!("{}:{}", kind_of(&c.req), match &c.fault { Fault::None => "request", Fault::ReplyFlag => "fault:reply-flag", Fault::OtherCommand(_) => "fault:other-command" }));
    st.nontrivial_hash(fnv(&bytes));
    judge(&c.req, &c.fault, &bytes, negative, &app, st)
}

// ---------------------------------------------------------------------------------------
// conversations: the usual client sends Negotiate and then Session Setup on the same connection

#[derive(Clone, Debug, Serialize, Deserialize, PartialEq)]
pub struct Conv {
    pub scn: Scenario,
    pub sport: u16,
    pub dport: u16,
    pub msgs: Vec<(SmbReq, Fault)>,
}

pub fn conv_strategy() -> impl Strategy<Value = Conv> {
    let fault = || prop_oneof![
        6 => Just(Fault::None),
        1 => Just(Fault::ReplyFlag),
        2 => prop_oneof![2 => 0u16..=0x12, 2 => 0x70u16..0x76, 1 => any::<u16>()].prop_map(Fault::OtherCommand),
    ];
    // one SMB version per connection: the flow's leading bytes select the SMB1 or the SMB2
    // responder for the whole connection (C10), so a message of the other version is not this
    // responder's to answer
    (scenario_levels(Fam::Any), port(), port(), proptest::collection::vec((smb_req(), fault()), 2..=6)).prop_map(|(scn, sport, dport, mut msgs)| {
        let v1 = msgs[0].0.is_smb1();
        msgs.retain(|(r, _)| r.is_smb1() == v1);
        msgs.truncate(4);
        Conv { scn, sport, dport, msgs }
    })
}

pub fn conv_check(c: &Conv, st: &mut Stats) -> Check {
    use crate::vf::session::*;
    Sut::reset();
    st.eval();
    let sut = Sut::new(&c.scn.cfg);
    let flow = Flow { net: c.scn.net.clone(), sport: c.sport, dport: c.dport };
    let mut stream = Vec::new();
    let mut lens = Vec::new();
    let mut parts = Vec::new();
    for (req, fault) in &c.msgs {
        let (bytes, negative) = match faulted(req, fault) {
            Some(x) => x,
            None => return Ok(()),
        };
        lens.push(bytes.len());
        stream.extend_from_slice(&bytes);
        parts.push((bytes, negative));
    }
    if c.msgs.len() < 2 || c.msgs.iter().any(|(r, _)| r.is_smb1() != c.msgs[0].0.is_smb1()) {
        st.class("trivial:conversation-of-one-message-or-mixed-versions");
        return Ok(());
    }
    st.frames(1 + lens.len() as u64);
    let replies = deliver(&sut, &flow, 2020, &stream, &lens).map_err(Failure::new)?;
    st.nontrivial_hash(fnv(&stream) ^ 0xc0);
    st.class(&format!("conversation:{}-messages", c.msgs.len()));
    for (i, rp) in replies.iter().enumerate() {
        let app: Option<Vec<u8>> = match rp {
            SegReply::Data(p) => Some(p.clone()),
            SegReply::Ack | SegReply::Silence => None,
            SegReply::Other(o) => {
                if o.starts_with("panic") {
                    return Err(Failure::keyed("panic", o.clone()));
                }
                vfail!("message #{} of the conversation got {:?}", i, o)
            }
        };
        let (req, fault) = &c.msgs[i];
        if i > 0 {
            st.class(&format!("conversation:later:{}:{}", kind_of(req), match fault { Fault::None => "request", Fault::ReplyFlag => "fault:reply-flag", Fault::OtherCommand(_) => "fault:other-command" }));
        }
        judge(req, fault, &parts[i].0, parts[i].1, &app, st).map_err(|f| Failure { key: f.key, msg: format!("message #{} of {} on one connection: {}", i, c.msgs.len(), f.msg) })?;
    }
    Ok(())
}

impl Prop for C17 {
    fn id(&self) -> &'static str {
        "C17"
    }
    fn rule(&self) -> &'static str {
        "cases = NetBIOS session messages over a handshaken TCP flow (one segment, both IP versions, random ports) carrying SMB1 Negotiate (1..8 dialects from known / unknown / random names, any order, duplicates, consistent ByteCount), SMB1 Session Setup (12-word layout, security blob 1..299 bytes, optional trailing strings), SMB2 Negotiate (1..8 dialect revisions from the supported set and random values, duplicates tracked separately, optional negotiate-context bytes), SMB2 Session Setup (blob 1..299 bytes); every correlation field random (PIDHigh/TID/PIDLow/UID/MID; MessageId/AsyncId/SessionId), request flags random with the reply bit clear. Negatives: reply flag set; SMB1 command over all byte values, SMB2 commands 0..18 and random. Conversations: 2..4 such messages (each request or negative, one SMB version per connection since the leading bytes select the SMB1 or SMB2 responder for the whole flow; e.g. Negotiate then Session Setup as real clients do) in successive segments of ONE connection, every message judged exactly like a single one. Security blobs as clients send them (raw NTLMSSP types 1/2/3, SPNEGO negTokenInit/negTokenResp wrappers, Kerberos-looking, random). Oracle: own decoders: NetBIOS length = rest, magic, command and correlation fields echoed, reply flag set, WordCount/StructureSize, DialectIndex < number offered / DialectRevision among those offered (no reply if none supported), ByteCount / SecurityBlobLength / SecurityBufferOffset+Length consistent with the bytes present. Non-trivial = every case; distinct by message hash. Shadow traffic (vf/shadow.rs): three cases in ten process, before every frame of the case, a sibling of that frame whose result is discarded — the same frame again, or one tuple element (source / destination port, source / destination address, source MAC), one payload bit or the payload length changed; TCP conversations are shadowed whole on a sibling flow validated with its own cookie; sound by the statement of C08, cases whose own flows meet a shadow tuple are excluded and counted."
    }
    fn run(&self, ctx: &mut RunCtx) {
        let n = ctx.share(ctx.tier.n(1_500_000, 16_000_000));
        ctx.run_generated("smb", n, case_strategy(), check);
        let m = ctx.share(ctx.tier.n(800_000, 8_000_000));
        ctx.run_generated("conversation", m, conv_strategy(), conv_check);
    }
    fn replay(&self, stream: &str, case: &Value, st: &mut Stats) -> Check {
        let bad = |e: serde_json::Error| Failure::new(format!("bad case: {}", e));
        match stream {
            "conversation" => conv_check(&serde_json::from_value(case.clone()).map_err(bad)?, st),
            _ => check(&serde_json::from_value(case.clone()).map_err(bad)?, st),
        }
    }
}
