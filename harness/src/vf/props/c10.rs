// C10 — protocol identification is decided by leading bytes against the signature set.

use proptest::collection::vec;
use proptest::prelude::*;
use serde::{Deserialize, Serialize};
use serde_json::{json, Value};
use std::collections::{HashMap, HashSet, VecDeque};

use crate::vf::codec::*;
use crate::vf::dec_app::*;
use crate::vf::engine::*;
use crate::vf::gen::*;
use crate::vf::gen_app::*;
use crate::vf::session::*;
use crate::vf::shadow::{shadow_opt, with_shadow, Shadow};
use crate::vf::sig::*;
use crate::vf::sut::*;
use crate::vf::util::*;

pub struct C10;

pub fn hook_id(name: &str) -> usize {
    crate::proto::VERIF_PROTO_IDS.iter().find(|(n, _)| *n == name).map(|(_, i)| *i).unwrap_or(usize::MAX - 1)
}

pub fn proto_of_id(id: usize) -> Option<Proto> {
    for p in [Proto::Http, Proto::Stun, Proto::Ssh, Proto::Ghost, Proto::RpcTcp, Proto::RpcUdp, Proto::Smb1, Proto::Smb2] {
        if hook_id(p.hook_name()) == id {
            return Some(p);
        }
    }
    None
}

/// what the compiled matcher decides for a whole payload (datagram: with end-of-input step)
pub fn matcher_identify(data: &[u8], datagram: bool) -> Option<Proto> {
    let no_match = hook_id("NO_MATCH");
    let (id, state, _i) = crate::proto::verif_proto_search(0, data);
    if id != no_match {
        return proto_of_id(id);
    }
    if datagram {
        let (id, _) = crate::proto::verif_proto_search_end(state);
        if id != no_match {
            return proto_of_id(id);
        }
    }
    None
}

#[derive(Debug, PartialEq)]
pub enum Divergence {
    None,
    Known(&'static str),
    Unlisted(String),
}

/// Dispatch-divergence classification for one payload (used as a filter by C13-C19, and as the
/// oracle of C10's end-to-end part): compares the compiled matcher with the reference.
pub fn divergence(data: &[u8], datagram: bool) -> Divergence {
    let r = ref_identify(data, datagram);
    let m = matcher_identify(data, datagram);
    let agree = match m {
        None => r.protos.is_empty(),
        Some(p) => r.protos.contains(&p),
    };
    if agree {
        return Divergence::None;
    }
    // matcher missed a completed signature: known iff the path carries the shadowing excuse
    if m.is_none() && !r.names.is_empty() && r.names.iter().all(|n| r.excused.contains(n)) {
        return Divergence::Known("wildcard-shadowing");
    }
    if let (Some(p), true) = (m, r.protos.is_empty()) {
        if r.eoi_as_wildcard == Some(p) {
            return Divergence::Known("eoi-as-wildcard");
        }
    }
    Divergence::Unlisted(format!("matcher says {:?}, reference says {:?} (completed {:?}, excused {:?})", m, r.protos, r.names, r.excused))
}

// ---------------------------------------------------------------------------------------
// part 1: exhaustive product exploration

#[derive(Clone, PartialEq, Eq, Hash)]
struct PState {
    q: usize,
    alive: u32,
    ms: usize,
    excuse: u32,
}

pub struct BfsResult {
    pub states: u64,
    pub steps: u64,
    pub agree_completions: u64,
    pub known: HashMap<&'static str, u64>,
    /// order-independent fingerprint of the SET of known divergent steps per key, over the
    /// reference side only (position, alive signatures, excuse mask, input byte or end of input):
    /// a change that makes the matcher diverge at other steps changes it
    pub known_fp: HashMap<&'static str, u64>,
    /// distinct reference-side steps per key (independent of the matcher's internal state numbering)
    pub known_set: HashMap<&'static str, HashSet<u64>>,
    pub violations: Vec<(Vec<u8>, String)>,
    pub witnesses: Vec<(Vec<u8>, &'static str)>,
    pub max_depth: usize,
}

fn fp_step(q: usize, alive: u32, excuse: u32, sym: u16) -> u64 {
    let mut v = Vec::with_capacity(16);
    v.extend_from_slice(&(q as u32).to_le_bytes());
    v.extend_from_slice(&alive.to_le_bytes());
    v.extend_from_slice(&excuse.to_le_bytes());
    v.extend_from_slice(&sym.to_le_bytes());
    fnv(&v).wrapping_mul(0x9e37_79b9_7f4a_7c15)
}

/// the key under which a known divergence class of the product is reported: class name, number
/// of divergent steps and the fingerprint of their set (KNOWN_FINDINGS.txt lists exactly this)
pub fn product_key(k: &str, n: u64, fp: u64) -> String {
    format!("{}@{}:{:08x}", k, n, (fp ^ (fp >> 32)) as u32)
}

pub fn product_bfs() -> BfsResult {
    let sigs = signatures();
    let no_match = hook_id("NO_MATCH");
    let mut res = BfsResult { states: 0, steps: 0, agree_completions: 0, known: HashMap::new(), known_fp: HashMap::new(), known_set: HashMap::new(), violations: vec![], witnesses: vec![], max_depth: 0 };
    let init = PState { q: 0, alive: (1u32 << sigs.len()) - 1, ms: 0, excuse: 0 };
    let mut seen: HashSet<PState> = HashSet::new();
    let mut queue: VecDeque<(PState, Vec<u8>)> = VecDeque::new();
    seen.insert(init.clone());
    queue.push_back((init, vec![]));
    let mut seen_witness: HashSet<&'static str> = HashSet::new();
    while let Some((s, path)) = queue.pop_front() {
        res.states += 1;
        res.max_depth = res.max_depth.max(path.len());
        // end-of-input step at this product state (datagram case)
        {
            let (id, _) = crate::proto::verif_proto_search_end(s.ms);
            let mut want: Vec<Proto> = vec![];
            let mut eoi_wild: Vec<Proto> = vec![];
            for (x, sg) in sigs.iter().enumerate() {
                if s.alive & (1 << x) == 0 {
                    continue;
                }
                if sg.end_anchored && sg.pat.len() == s.q {
                    want.push(sg.proto);
                    if seen_witness.insert(sg.name) {
                        res.witnesses.push((path.clone(), sg.name));
                    }
                }
                if !sg.end_anchored && sg.pat.len() == s.q + 1 && sg.pat[s.q].is_none() {
                    eoi_wild.push(sg.proto);
                }
            }
            res.steps += 1;
            let got = if id == no_match { None } else { proto_of_id(id) };
            match (got, want.is_empty()) {
                (None, true) => {}
                (Some(p), false) if want.contains(&p) => res.agree_completions += 1,
                (None, false) => {
                    // an end-anchored signature missed at end of input
                    let all_excused = sigs.iter().enumerate().filter(|(x, sg)| s.alive & (1 << x) != 0 && sg.end_anchored && sg.pat.len() == s.q).all(|(x, _)| s.excuse & (1 << x) != 0);
                    if all_excused {
                        *res.known.entry("wildcard-shadowing").or_insert(0) += 1;
                        res.known_set.entry("wildcard-shadowing").or_default().insert(fp_step(s.q, s.alive, s.excuse, 256));
                    } else {
                        res.violations.push((path.clone(), format!("end of input after {} bytes: reference completes {:?}, matcher reports nothing", s.q, want)));
                    }
                }
                (Some(p), _) => {
                    if id != no_match && proto_of_id(id).is_none() {
                        res.violations.push((path.clone(), format!("matcher reports unknown id {} at end of input", id)));
                    } else if want.is_empty() && eoi_wild.contains(&p) {
                        *res.known.entry("eoi-as-wildcard").or_insert(0) += 1;
                        res.known_set.entry("eoi-as-wildcard").or_default().insert(fp_step(s.q, s.alive, s.excuse, 256));
                    } else {
                        res.violations.push((path.clone(), format!("end of input after {} bytes: matcher reports {:?}, reference completes {:?}", s.q, p, want)));
                    }
                }
            }
        }
        for b in 0..=255u8 {
            res.steps += 1;
            // reference step
            let mut alive2 = 0u32;
            let mut excuse2 = s.excuse;
            for (x, sg) in sigs.iter().enumerate() {
                if s.alive & (1 << x) == 0 || s.q >= sg.pat.len() {
                    continue;
                }
                match sg.pat[s.q] {
                    None => {
                        alive2 |= 1 << x;
                        // excuse: the byte equals the literal of another alive signature here
                        for (y, sy) in sigs.iter().enumerate() {
                            if y != x && s.alive & (1 << y) != 0 && s.q < sy.pat.len() && sy.pat[s.q] == Some(b) {
                                excuse2 |= 1 << x;
                            }
                        }
                    }
                    Some(l) if l == b => alive2 |= 1 << x,
                    _ => {}
                }
            }
            let mut done: Vec<usize> = vec![];
            for (x, sg) in sigs.iter().enumerate() {
                if alive2 & (1 << x) != 0 && sg.pat.len() == s.q + 1 && !sg.end_anchored {
                    done.push(x);
                }
            }
            // matcher step
            let (id, ms2, consumed) = crate::proto::verif_proto_search(s.ms, &[b]);
            let got = if id == no_match { None } else { proto_of_id(id) };
            let mut path2 = path.clone();
            path2.push(b);
            if id != no_match && got.is_none() {
                res.violations.push((path2.clone(), format!("matcher reports unknown id {}", id)));
                continue;
            }
            if !done.is_empty() {
                let want: Vec<Proto> = done.iter().map(|x| sigs[*x].proto).collect();
                for x in &done {
                    if seen_witness.insert(sigs[*x].name) {
                        res.witnesses.push((path2.clone(), sigs[*x].name));
                    }
                }
                match got {
                    Some(p) if want.contains(&p) => res.agree_completions += 1,
                    None => {
                        if done.iter().all(|x| excuse2 & (1 << x) != 0) {
                            *res.known.entry("wildcard-shadowing").or_insert(0) += 1;
                            res.known_set.entry("wildcard-shadowing").or_default().insert(fp_step(s.q, s.alive, excuse2, b as u16));
                        } else {
                            res.violations.push((path2.clone(), format!("leading bytes complete {:?} but the matcher reports nothing", done.iter().map(|x| sigs[*x].name).collect::<Vec<_>>())));
                        }
                    }
                    Some(p) => res.violations.push((path2.clone(), format!("leading bytes complete {:?} but the matcher reports {:?}", done.iter().map(|x| sigs[*x].name).collect::<Vec<_>>(), p))),
                }
                continue; // decision made: first signature completed
            }
            if let Some(p) = got {
                res.violations.push((path2.clone(), format!("matcher reports {:?} although the leading bytes complete no signature (alive: {:?})", p, sigs.iter().enumerate().filter(|(x, _)| alive2 & (1 << x) != 0).map(|(_, sg)| sg.name).collect::<Vec<_>>())));
                continue;
            }
            let _ = consumed;
            let ns = PState { q: if alive2 == 0 { 0 } else { s.q + 1 }, alive: alive2, ms: ms2, excuse: if alive2 == 0 { 0 } else { excuse2 & alive2 } };
            if seen.insert(ns.clone()) {
                queue.push_back((ns, path2));
            }
        }
        if res.violations.len() > 64 {
            break;
        }
    }
    for (k, set) in &res.known_set {
        let fp = set.iter().fold(0u64, |a, x| a.wrapping_add(*x));
        res.known_fp.insert(k, fp);
    }
    res
}

// ---------------------------------------------------------------------------------------
// part 2: end-to-end witnesses through reply()

#[derive(Clone, Debug, Serialize, Deserialize, PartialEq)]
pub struct E2e {
    pub scn: Scenario,
    pub sport: u16,
    pub dport: u16,
    pub tcp: bool,
    pub payload: Hex,
    /// what kind of payload this is ("valid:<proto>", "no-signature", "near-signature")
    pub kind: String,
    /// sibling traffic before every frame (vf/shadow.rs): the same payload — or one cut short,
    /// extended or with a bit flipped — in another datagram / on another connection first
    #[serde(default)]
    pub shadow: Option<Shadow>,
}

/// a string whose leading bytes complete no signature, built by walking the reference
/// automaton: follow a signature for `keep` bytes, then leave every alive signature
fn no_signature_payload(sig_idx: usize, keep: usize, fill: &[u8], tail: &[u8]) -> Vec<u8> {
    let sigs = signatures();
    let sg = &sigs[sig_idx % sigs.len()];
    let keep = keep % sg.pat.len();
    let mut v: Vec<u8> = Vec::new();
    for q in 0..keep {
        v.push(sg.pat[q].unwrap_or(fill[q % fill.len()]));
    }
    v.extend_from_slice(tail);
    // repair: while the reference still completes something, perturb the decisive position
    let mut guard = 0;
    loop {
        let d = ref_identify(&v, true);
        let d2 = ref_identify(&v, false);
        if d.protos.is_empty() && d2.protos.is_empty() {
            break;
        }
        let at = if !d2.protos.is_empty() { d2.at } else { d.at };
        if at == 0 || at > v.len() {
            v.push(0x7e);
        } else {
            v[at - 1] = v[at - 1].wrapping_add(0x55) | 0x80;
        }
        guard += 1;
        if guard > 64 {
            return vec![0x7e, 0x7e, 0x7e];
        }
    }
    v
}

pub fn e2e_strategy() -> impl Strategy<Value = E2e> {
    (e2e_strategy0(), shadow_opt()).prop_map(|(mut c, sh)| {
        c.shadow = sh;
        c
    })
}

fn e2e_strategy0() -> impl Strategy<Value = E2e> {
    let valid = (app_req(), any::<bool>()).prop_map(|(a, tcp)| (Hex(a.bytes(tcp)), format!("valid:{}", a.kind()), tcp));
    let nosig = (any::<usize>(), any::<usize>(), vec(any::<u8>(), 4), vec(any::<u8>(), 0..60), any::<bool>()).prop_map(|(s, k, f, t, tcp)| (Hex(no_signature_payload(s, k, &f, &t)), "no-signature".to_string(), tcp));
    // a complete valid request behind a short junk prefix (empty lines, NUL, blanks, random bytes):
    // the reference automaton decides what (if anything) its leading bytes complete
    let prefixed = (app_req(), any::<bool>(), prop_oneof![2 => Just(b"\r\n".to_vec()), 1 => Just(b"\n".to_vec()), 1 => Just(b"\r".to_vec()), 1 => Just(b" ".to_vec()), 1 => Just(vec![0u8]), 1 => Just(b"\r\n\r\n".to_vec()), 2 => vec(any::<u8>(), 1..4)]).prop_map(|(a, tcp, pre)| {
        let mut v = pre;
        v.extend_from_slice(&a.bytes(tcp));
        (Hex(v), "prefixed-request".to_string(), tcp)
    });
    // look-alikes: payloads one step away from a signature (older / newer protocol versions, other
    // letter case, other framing, response instead of request), sent to the port where that
    // protocol usually lives; the reference automaton decides what, if anything, they complete
    let lookalikes: Vec<(&'static [u8], &'static [u16])> = vec![
        (b"SSH-1.5-OpenSSH_1.2.27\r\n", &[22, 2222]),
        (b"SSH-1.0-x\r\n", &[22, 2222]),
        (b"SSH-2.1-x\r\n", &[22]),
        (b"ssh-2.0-x\r\n", &[22]),
        (b"SSH-3.0-x\r\n", &[22]),
        (b"get / HTTP/1.1\r\n\r\n", &[80, 8080, 443]),
        (b"GET\t/ HTTP/1.1\r\n\r\n", &[80, 8080]),
        (b"GET  / HTTP/1.1\r\n\r\n", &[80]),
        (b"GET index.html HTTP/1.0\r\n\r\n", &[80, 8000]),
        (b"BREW / HTTP/1.1\r\n\r\n", &[80]),
        (b"PROPFIND / HTTP/1.1\r\n\r\n", &[80, 443]),
        (b"HTTP/1.1 200 OK\r\n\r\n", &[80, 3128]),
        (b"PRI * HTTP/2.0\r\n\r\nSM\r\n\r\n", &[80, 443]),
        (b"\x16\x03\x01\x00\x2f\x01\x00\x00\x2b\x03\x03", &[443, 8443, 22]),
        (b"gh0st\x16\x00\x00\x00\x01\x00\x00\x00", &[80, 8000, 2011]),
        (b"GH0ST\x16\x00\x00\x00\x01\x00\x00\x00", &[80]),
        (b"\xffSMBr\x00\x00\x00\x00\x18\x01\x28", &[445, 139]),
        (b"\x81\x00\x00\x44 CKFDENECFDEFFCFGEFFCCACACACACACA\x00 CACACACACACACACACACACACACACACAAA\x00", &[139]),
        (b"\x00\x00\x00\x08\xffSMC\x72\x00\x00\x00", &[445, 139]),
        (b"\x00\x02\x00\x00\x21\x12\xa4\x42\x00\x00\x00\x00\x00\x00\x00\x00\x00\x00\x00\x00", &[3478, 5349]),
        (b"\x00\x01\x00\x04\x00\x00\x00\x00\x00\x00\x00\x00\x00\x00\x00\x00\x00\x00\x00\x00\x00\x06\x00\x00", &[3478]),
        (b"\x72\xfe\x1d\x13\x00\x00\x00\x01\x00\x00\x00\x02\x00\x01\x86\xa0\x00\x00\x00\x02\x00\x00\x00\x03", &[111, 2049]),
        (b"\x72\xfe\x1d\x13\x00\x00\x00\x00\x00\x00\x00\x03\x00\x01\x86\xa0\x00\x00\x00\x02\x00\x00\x00\x03\x00\x00\x00\x00\x00\x00\x00\x00\x00\x00\x00\x00\x00\x00\x00\x00", &[111]),
        (b"\x00\x1d\x13\x37\x01\x00\x00\x01\x00\x00\x00\x00\x00\x00\x03www\x07example\x03com\x00\x00\x01\x00\x01", &[53]),
        (b"\x05\x01\x00", &[1080]),
        (b"\x04\x01\x00\x50\x7f\x00\x00\x01\x00", &[1080]),
        (b"CONNECT example.com:443 HTTP/1.1\r\n\r\n", &[3128, 8080]),
        (b"OPTIONS * HTTP/1.1\r\n\r\n", &[80]),
        (b"\r\n\r\n\x00\r\nQUIT\n\x21\x11\x00\x0c", &[80, 443]),
    ];
    let look = (prop::sample::select(lookalikes), any::<u16>(), prop::bool::weighted(0.7), any::<bool>(), vec(any::<u8>(), 0..12)).prop_map(|((bytes, ports), pi, std_port, tcp, tail)| {
        let mut v = bytes.to_vec();
        v.extend_from_slice(&tail);
        let dport = if std_port { Some(ports[pick(pi, ports.len())]) } else { None };
        (Hex(v), "look-alike".to_string(), tcp, dport)
    });
    // a complete request followed by further bytes in the same payload (for the signatures that are
    // anchored at the end of the input the reference then says: nothing completes)
    let trailed = (app_req(), any::<bool>(), prop_oneof![2 => vec(any::<u8>(), 1..4), 1 => vec(any::<u8>(), 4..40), 1 => Just(vec![0u8; 4])]).prop_map(|(a, tcp, tail)| {
        let mut v = a.bytes(tcp);
        v.extend_from_slice(&tail);
        (Hex(v), "request-with-trailing-bytes".to_string(), tcp)
    });
    let plain = prop_oneof![6 => valid, 4 => nosig, 2 => prefixed, 1 => trailed].prop_map(|(p, k, t)| (p, k, t, None::<u16>));
    (scenario_quiet(Fam::Any), port(), port(), prop_oneof![6 => plain, 1 => look]).prop_map(|(scn, sport, dport, (payload, kind, tcp, fixed_dport))| E2e { scn, sport, dport: fixed_dport.unwrap_or(dport), tcp, payload, kind, shadow: None })
}

fn expected_responder(kind: &str, tcp: bool) -> Option<Responder> {
    Some(match kind {
        "valid:http" => Responder::Http,
        "valid:ssh" => Responder::Ssh,
        "valid:ghost" => Responder::Ghost,
        "valid:stun" => Responder::Stun,
        "valid:rpc" => Responder::Rpc,
        "valid:smb" => Responder::Smb,
        _ => return None,
    })
}

pub fn e2e_check(c: &E2e, st: &mut Stats) -> Check {
    with_shadow(&c.shadow, st, |st| e2e_check0(c, st))
}

fn e2e_check0(c: &E2e, st: &mut Stats) -> Check {
    Sut::reset();
    st.eval();
    let sut = Sut::new(&c.scn.cfg);
    let r = ref_identify(&c.payload, !c.tcp);
    // the matcher/reference comparison itself (known divergences are excluded and counted)
    match divergence(&c.payload, !c.tcp) {
        Divergence::None => {}
        Divergence::Known(k) => {
            st.exclude(k);
            return Ok(());
        }
        Divergence::Unlisted(m) => vfail!("payload {}: {}", hex(&c.payload[..c.payload.len().min(80)]), m),
    }
    let app: Option<Vec<u8>> = if c.tcp {
        let flow = Flow { net: c.scn.net.clone(), sport: c.sport, dport: c.dport };
        st.frames(2);
        match deliver(&sut, &flow, 9, &c.payload, &[c.payload.len()]) {
            Ok(v) => match &v[0] {
                SegReply::Data(p) => Some(p.clone()),
                SegReply::Ack => None,
                other => vfail!("data segment on a handshaken flow: {:?}", other),
            },
            Err(e) => vfail!("{}", e),
        }
    } else {
        st.frames(1);
        match sut.frame(&udp_frame(&c.scn.net, c.sport, c.dport, &c.payload)) {
            Out::Reply(rp) => decode_reply(&rp).map_err(Failure::new)?.app().map(|a| a.to_vec()),
            Out::Silence => None,
            Out::Panic(p) => return Err(Failure::keyed(p.key(), format!("panic: {} {}", p.file, p.msg))),
        }
    };
    let transport = if c.tcp { "tcp" } else { "udp" };
    st.class(&format!("e2e:{}:{}:{}", c.kind, transport, if app.is_some() { "answered" } else { "silent" }));
    if r.protos.is_empty() {
        // no signature completed: never answered by a signature-dispatched responder
        if let Some(a) = &app {
            let who = classify_reply(a, c.tcp);
            if !c.tcp && who == Responder::Dns {
                // DNS is the non-signature fallback for datagrams
                return Ok(());
            }
            vfail!("payload whose leading bytes complete no signature answered by {:?} over {}: {} -> {}", who, transport, hex(&c.payload[..c.payload.len().min(80)]), hex(&a[..a.len().min(80)]));
        }
        st.nontrivial_hash(fnv(&c.payload) ^ c.tcp as u64);
        return Ok(());
    }
    // a signature completes
    if let Some(want) = expected_responder(&c.kind, c.tcp) {
        // complete valid request generated from the protocol's own grammar: only claim when the
        // signature that completed belongs to the generating protocol (a DNS query / garbage may
        // happen to complete e.g. an RPC signature; C14's precondition handles that)
        let a = match &app {
            Some(a) => a,
            None => {
                // requests in tracked-separately classes are not demanded here (C13-C18 own them)
                st.class(&format!("e2e:valid-but-silent:{}", c.kind));
                return Ok(());
            }
        };
        let who = classify_reply(a, c.tcp);
        st.nontrivial_hash(fnv(&c.payload) ^ c.tcp as u64);
        st.sample(|| json!({"payload": hex(&c.payload[..c.payload.len().min(60)]), "transport": transport, "signature": r.names, "responder": format!("{:?}", who)}));
        vensure!(who == want, "request of {} whose leading bytes complete {:?} was answered by {:?} over {}: {} -> {}", c.kind, r.names, who, transport, hex(&c.payload[..c.payload.len().min(80)]), hex(&a[..a.len().min(80)]));
    } else if let Some(a) = &app {
        // dns / garbage payload that completes a signature: the responder must be that signature's
        let who = classify_reply(a, c.tcp);
        let ok = r.protos.iter().any(|p| responder_of(*p) == who);
        vensure!(ok, "payload completing {:?} answered by {:?} over {}: {}", r.names, who, transport, hex(&c.payload[..c.payload.len().min(80)]));
    }
    Ok(())
}

pub fn responder_of(p: Proto) -> Responder {
    match p {
        Proto::Http => Responder::Http,
        Proto::Stun => Responder::Stun,
        Proto::Ssh => Responder::Ssh,
        Proto::Ghost => Responder::Ghost,
        Proto::RpcTcp | Proto::RpcUdp => Responder::Rpc,
        Proto::Smb1 | Proto::Smb2 => Responder::Smb,
    }
}

// ---------------------------------------------------------------------------------------
// part 2b: over TCP the payload is the flow's byte stream: what follows the leading bytes (a
// second request, another protocol's signature at the start of a later segment) never moves
// the flow to another responder

#[derive(Clone, Debug, Serialize, Deserialize, PartialEq)]
pub struct Sticky {
    pub scn: Scenario,
    pub sport: u16,
    pub dport: u16,
    pub first: AppReq,
    pub later: Vec<AppReq>,
}

pub fn sticky_strategy() -> impl Strategy<Value = Sticky> {
    (scenario_quiet(Fam::Any), port(), port(), app_req(), vec(app_req(), 1..=3)).prop_map(|(scn, sport, dport, first, later)| Sticky { scn, sport, dport, first, later })
}

pub fn sticky_check(c: &Sticky, st: &mut Stats) -> Check {
    Sut::reset();
    st.eval();
    let sut = Sut::new(&c.scn.cfg);
    let first = c.first.bytes(true);
    match divergence(&first, false) {
        Divergence::None => {}
        Divergence::Known(k) => {
            st.exclude(k);
            return Ok(());
        }
        Divergence::Unlisted(m) => vfail!("payload {}: {}", hex(&first[..first.len().min(80)]), m),
    }
    let r = ref_identify(&first, false);
    if r.protos.is_empty() {
        st.class("sticky:first-request-completes-no-signature");
        return Ok(());
    }
    let allowed: Vec<Responder> = r.protos.iter().map(|p| responder_of(*p)).collect();
    let mut stream = first.clone();
    let mut lens = vec![first.len()];
    for l in &c.later {
        let b = l.bytes(true);
        lens.push(b.len());
        stream.extend_from_slice(&b);
    }
    let flow = Flow { net: c.scn.net.clone(), sport: c.sport, dport: c.dport };
    st.frames(1 + lens.len() as u64);
    let replies = deliver(&sut, &flow, 11, &stream, &lens).map_err(Failure::new)?;
    let mut off = 0usize;
    for (i, rp) in replies.iter().enumerate() {
        let seg = &stream[off..off + lens[i]];
        off += lens[i];
        match rp {
            SegReply::Data(p) => {
                let who = classify_reply(p, true);
                st.class(&format!("sticky:segment{}:{:?}-flow:answered-by-{:?}", i.min(2), allowed[0], who));
                if i > 0 {
                    st.nontrivial_hash(fnv(&stream) ^ i as u64);
                }
                if who != Responder::Unknown && !allowed.contains(&who) {
                    vfail!(
                        "segment #{} of a flow whose leading bytes complete {:?} was answered by {:?}: stream starts {} ; segment {} -> {}",
                        i,
                        r.names,
                        who,
                        hex(&first[..first.len().min(40)]),
                        hex(&seg[..seg.len().min(60)]),
                        hex(&p[..p.len().min(60)])
                    );
                }
            }
            SegReply::Ack | SegReply::Silence => {
                st.class(&format!("sticky:segment{}:{:?}-flow:not-answered", i.min(2), allowed[0]));
            }
            SegReply::Other(o) => {
                if o.starts_with("panic") {
                    return Err(Failure::keyed("panic", format!("segment #{}: {}", i, o)));
                }
            }
        }
    }
    st.sample(|| json!({"first": c.first.kind(), "later": c.later.iter().map(|l| l.kind()).collect::<Vec<_>>(), "replies": replies.iter().map(|r| match r { SegReply::Data(p) => format!("{:?}", classify_reply(p, true)), o => format!("{:?}", o) }).collect::<Vec<_>>()}));
    Ok(())
}

// ---------------------------------------------------------------------------------------
// part 2c: a split signature survives any number of other connections opened in between

#[derive(Clone, Debug, Serialize, Deserialize, PartialEq)]
pub struct Pressure {
    pub scn: Scenario,
    pub others: u32,
    pub cut: u8,
}

pub fn pressure_check(c: &Pressure, st: &mut Stats) -> Check {
    Sut::reset();
    st.eval();
    let sut = Sut::new(&c.scn.cfg);
    let net = &c.scn.net;
    let stream: &[u8] = b"Gh0st\x16\x00\x00\x00\x01\x00\x00\x00x\x9c\x63\x00\x00\x00\x01\x00\x01";
    let cut = 1 + (c.cut as usize % 4);
    let a = Flow { net: net.clone(), sport: 61000, dport: 8000 };
    let ka = learn_cookie(&sut, &a, 10).map_err(Failure::new)?;
    let o1 = sut.frame(&a.data(11, ka.wrapping_add(1), &stream[..cut]));
    vensure!(matches!(classify_seg_reply(&o1), SegReply::Ack), "first part of a split Gh0st packet got {:?}", classify_seg_reply(&o1));
    for i in 0..c.others {
        let f = Flow { net: net.clone(), sport: i as u16, dport: 3000u16.wrapping_add((i >> 16) as u16) };
        let k = learn_cookie(&sut, &f, i).map_err(Failure::new)?;
        let _ = sut.frame(&f.data(i.wrapping_add(1), k.wrapping_add(1), b"x"));
    }
    let o2 = sut.frame(&a.data(11 + cut as u32, ka.wrapping_add(1), &stream[cut..]));
    st.frames(3 + 2 * c.others as u64);
    st.class("pressure:split-signature-with-other-connections-in-between");
    st.nontrivial(&(c.others, cut));
    match classify_seg_reply(&o2) {
        SegReply::Data(p) if classify_reply(&p, true) == Responder::Ghost => Ok(()),
        other => vfail!("'{}' | {} other connections | rest of the Gh0st packet: the second part got {:?} instead of a Gh0st answer (the decision must not depend on other flows or on how the leading bytes are split)", String::from_utf8_lossy(&stream[..cut]), c.others, match other { SegReply::Data(p) => format!("Data({})", hex(&p[..p.len().min(24)])), o => format!("{:?}", o) }),
    }
}

// ---------------------------------------------------------------------------------------
// part 3: the decision is independent of the segmentation of the prefix, ports and addresses

#[derive(Clone, Debug, Serialize, Deserialize, PartialEq)]
pub struct SegCase {
    pub scn: Scenario,
    pub sport: u16,
    pub dport: u16,
    pub prefix: Hex,
    /// flags besides PSH|ACK on the LAST data segment of every split delivery (FIN, URG, ECE, ...:
    /// a data segment is a data segment whatever else it carries)
    #[serde(default)]
    pub last_extra: u16,
}

fn peek_id(sut: &Sut, flow: &Flow, stream: &[u8], lens: &[usize]) -> Result<Option<usize>, String> {
    peek_id_x(sut, flow, stream, lens, 0)
}

fn peek_id_x(sut: &Sut, flow: &Flow, stream: &[u8], lens: &[usize], last_extra: u16) -> Result<Option<usize>, String> {
    Sut::reset();
    let cookie = learn_cookie(sut, flow, 77)?;
    let mut seq = 78u32;
    let mut off = 0;
    for (i, l) in lens.iter().enumerate() {
        let end = (off + l).min(stream.len());
        let fl = if i + 1 == lens.len() { F_PSH | F_ACK | last_extra } else { F_PSH | F_ACK };
        let o = sut.frame(&flow.seg(seq, cookie.wrapping_add(1), fl, &stream[off..end]));
        if let Out::Panic(p) = o {
            return Err(format!("panic {} {}", p.file, p.msg));
        }
        seq = seq.wrapping_add((end - off) as u32);
        off = end;
    }
    Ok(crate::proto::verif_tcb_peek(cookie).map(|(_, id, _)| id))
}

pub fn seg_check(c: &SegCase, st: &mut Stats) -> Check {
    st.eval();
    let sut = Sut::new(&c.scn.cfg);
    let flow = Flow { net: c.scn.net.clone(), sport: c.sport, dport: c.dport };
    let s = &c.prefix.0;
    let n = s.len();
    if n == 0 {
        return Ok(());
    }
    let whole = peek_id(&sut, &flow, s, &[n]).map_err(Failure::new)?;
    let r = ref_identify(s, false);
    match divergence(s, false) {
        Divergence::Known(k) => {
            st.exclude(k);
            return Ok(());
        }
        Divergence::Unlisted(m) => vfail!("prefix {}: {}", hex(s), m),
        Divergence::None => {}
    }
    // the sticky id of the control block must be the identified protocol (or none)
    let want_id = r.protos.first().map(|p| hook_id(p.hook_name()));
    let none_id = hook_id("NONE");
    let norm = |x: Option<usize>| x.filter(|i| *i != none_id && *i != hook_id("NO_MATCH"));
    vensure!(norm(whole) == want_id.filter(|_| true) || (want_id.is_some() && r.protos.iter().any(|p| Some(hook_id(p.hook_name())) == norm(whole))), "unsplit delivery of {} identified as id {:?}, reference says {:?}", hex(s), whole, r.protos);
    let mut count = 0u64;
    // zero-length data segments (a PSH|ACK without payload) before or inside the prefix change nothing
    let got = peek_id_x(&sut, &flow, s, &[0, n], c.last_extra).map_err(Failure::new)?;
    vensure!(norm(got) == norm(whole), "decision depends on an empty data segment sent first: {} -> id {:?}, without it -> id {:?}", hex(s), got, whole);
    if n >= 2 {
        let a = 1 + (c.sport as usize % (n - 1));
        let got = peek_id_x(&sut, &flow, s, &[a, 0, n - a], c.last_extra).map_err(Failure::new)?;
        vensure!(norm(got) == norm(whole), "decision depends on an empty data segment at offset {}: {} -> id {:?}, without it -> id {:?}", a, hex(s), got, whole);
    }
    count += 2;
    for a in 1..n {
        let got = peek_id_x(&sut, &flow, s, &[a, n - a], c.last_extra).map_err(Failure::new)?;
        count += 1;
        vensure!(norm(got) == norm(whole), "decision depends on segmentation: {} cut at {} -> id {:?}, unsplit -> id {:?}", hex(s), a, got, whole);
        for b in a + 1..n {
            let got = peek_id_x(&sut, &flow, s, &[a, b - a, n - b], c.last_extra).map_err(Failure::new)?;
            count += 1;
            vensure!(norm(got) == norm(whole), "decision depends on segmentation: {} cut at {} and {} -> id {:?}, unsplit -> id {:?}", hex(s), a, b, got, whole);
        }
    }
    // other ports / addresses
    let flow2 = Flow { net: Net { cmac: flow.net.cmac, dmac: flow.net.dmac, cip: other_ip(&flow.net.cip, 3), sip: flow.net.sip }, sport: c.sport.wrapping_add(4242), dport: c.dport.wrapping_add(1) };
    if !c.scn.cfg.denied(&flow2.net.cip) {
        let got = peek_id(&sut, &flow2, s, &[n]).map_err(Failure::new)?;
        vensure!(norm(got) == norm(whole), "decision depends on ports/addresses: {} -> id {:?} vs {:?}", hex(s), got, whole);
    }
    st.frames(count * 3);
    st.add_extra("segmentations_checked", count);
    if !r.protos.is_empty() {
        st.nontrivial_hash(fnv(s));
    }
    st.class(&format!("seg:{}", r.names.first().cloned().unwrap_or("no-signature")));
    Ok(())
}

fn prefix_strategy() -> impl Strategy<Value = Hex> {
    // witness prefixes: a signature instantiated with random wildcard bytes (+ 0..3 more bytes),
    // or cut short / perturbed
    (0usize..17, vec(any::<u8>(), 32), 0usize..4, prop::option::weighted(0.3, (any::<u16>(), any::<u8>()))).prop_map(|(i, fill, extra, perturb)| {
        let sigs = signatures();
        let sg = &sigs[i % sigs.len()];
        let mut v: Vec<u8> = sg.pat.iter().enumerate().map(|(q, p)| p.unwrap_or(fill[q % fill.len()])).collect();
        v.extend_from_slice(&fill[..extra]);
        if let Some((p, b)) = perturb {
            let k = pick(p, v.len());
            v[k] = b;
        }
        // bytes that start no signature, then a complete signature: the flow's leading bytes
        // complete nothing, wherever the segments are cut
        if fill[31] % 5 == 0 {
            let junk = 1 + (fill[30] as usize % 12);
            let mut w: Vec<u8> = fill[..junk].iter().map(|b| b"xyz~\x7f\x01 \n"[*b as usize % 8]).collect();
            w.extend_from_slice(&v);
            v = w;
        }
        Hex(v)
    })
}

impl Prop for C10 {
    fn id(&self) -> &'static str {
        "C10"
    }
    fn rule(&self) -> &'static str {
        "(1) exhaustive breadth-first exploration of the product of the reference signature automaton (17 published signatures transcribed as data: literals, ? wildcards, begin/end anchors) with the compiled matcher stepped one byte at a time through the hook, over ALL 256 byte values per step plus the end-of-input step at every product state; product state = (position, alive signature set, matcher row | pending matches, shadowing-excuse mask); oracle: the matcher reports a protocol exactly where a signature first completes (ties accept either). (2) end-to-end through reply(): complete valid requests from every protocol generator and payloads whose leading bytes complete no signature (constructed by walking the reference automaton; plus about thirty look-alikes — other protocol versions, other letter case, other framing, responses, TLS / SOCKS / HTTP/2 openers — sent to the port where the imitated protocol usually lives), over UDP and over a handshaken TCP flow on random ports/addresses; the responder (classified by independent decoders) must be the completed signature's, or nobody (DNS fallback allowed for datagrams). (2b) over a handshaken TCP flow a complete request of one protocol followed, in later segments, by 1..3 complete requests of arbitrary other protocols: no segment of the flow is answered by a responder other than the one the stream's leading bytes selected. (2c) a Gh0st packet split after 1..4 bytes with 66 000 (quick) / 140 000 (thorough) other connections opened and validated between the two parts: the second part must still get the Gh0st answer. (3) for witness prefixes (every signature with random wildcard bytes, perturbed, extended) ALL 1- and 2-cut TCP segmentations and another port/address pair: the protocol id recorded in the control block equals the unsplit delivery's. Non-trivial = product states with a non-empty alive set / witnesses answered or rejected / prefixes that complete a signature; distinct by hash. Shadow traffic (vf/shadow.rs): three cases in ten process, before every frame of the case, a sibling of that frame whose result is discarded — the same frame again, or one tuple element (source / destination port, source / destination address, source MAC), one payload bit or the payload length changed; TCP conversations are shadowed whole on a sibling flow validated with its own cookie; sound by the statement of C08, cases whose own flows meet a shadow tuple are excluded and counted. e2e also holds complete requests followed by trailing bytes (end-anchored signatures); seg also holds bytes that start no signature followed by a complete signature."
    }
    fn run(&self, ctx: &mut RunCtx) {
        if ctx.worker == 0 {
            let t = std::time::Instant::now();
            let r = product_bfs();
            ctx.st.evaluations += r.steps;
            ctx.st.set_extra("const_product_states", json!(r.states));
            ctx.st.set_extra("const_product_steps", json!(r.steps));
            ctx.st.set_extra("const_product_agreeing_completions", json!(r.agree_completions));
            ctx.st.set_extra("const_product_known_divergent_steps", json!(r.known.iter().map(|(k, v)| (k.to_string(), *v)).collect::<HashMap<String, u64>>()));
            ctx.st.set_extra("const_product_max_depth", json!(r.max_depth));
            ctx.st.set_extra("const_product_ms", json!(t.elapsed().as_millis() as u64));
            ctx.st.exhaustive_parts.push("product of reference signature automaton x compiled matcher: all 256 byte values and the end-of-input step at every reachable product state".into());
            for (w, name) in &r.witnesses {
                ctx.st.nontrivial_hash(fnv(w));
                ctx.st.sample(|| json!({"shortest_witness_for": name, "bytes": hex(w)}));
            }
            ctx.st.max_samples = 8;
            for i in 0..r.states {
                ctx.st.nontrivial_hash(0x1000_0000_0000 + i);
            }
            // divergences that carry a known-finding key: reported as KNOWN-FINDING iff the key is
            // listed in KNOWN_FINDINGS.txt, as a violation otherwise (judge decides)
            for (k, n) in &r.known {
                let key = product_key(k, r.known_set.get(k).map(|x| x.len() as u64).unwrap_or(0), r.known_fp.get(k).cloned().unwrap_or(0));
                let case = json!({"key": key, "divergent_steps": n});
                ctx.run_one("product", &case, Err(Failure::keyed(key.clone(), format!("{} divergent (state, byte) steps in the product of reference automaton and compiled matcher (class {}; the set of steps is identified by the key {})", n, k, key))));
            }
            for (path, msg) in r.violations.iter().take(4) {
                let case = json!({"path": hex(path)});
                ctx.run_one("product", &case, Err(Failure::new(format!("after bytes {}: {}", hex(path), msg))));
            }
        }
        let n = ctx.share(ctx.tier.n(1_200_000, 10_000_000));
        ctx.run_generated("e2e", n, e2e_strategy(), e2e_check);
        let k = ctx.share(ctx.tier.n(500_000, 4_000_000));
        ctx.run_generated("sticky", k, sticky_strategy(), sticky_check);
        let np = ctx.share(ctx.tier.n(2, 16));
        let others = ctx.tier.n(66_000, 140_000) as u32;
        ctx.run_generated("pressure", np, (scenario_quiet(Fam::Any), Just(others), any::<u8>()).prop_map(|(scn, others, cut)| Pressure { scn, others, cut }), pressure_check);
        let m = ctx.share(ctx.tier.n(8_000, 80_000));
        ctx.run_generated("seg", m, (scenario_quiet(Fam::Any), port(), port(), prefix_strategy(), prop_oneof![2 => Just(0u16), 2 => prop::sample::select(vec![F_FIN, F_URG, F_RST, F_ECE, F_CWR, F_NS, F_SYN, F_FIN | F_URG]), 1 => (0u16..512).prop_map(|f| f & !(F_PSH | F_ACK))]).prop_map(|(scn, sport, dport, prefix, last_extra)| SegCase { scn, sport, dport, prefix, last_extra }), seg_check);
    }
    fn replay(&self, stream: &str, case: &Value, st: &mut Stats) -> Check {
        let bad = |e: serde_json::Error| Failure::new(format!("bad case: {}", e));
        match stream {
            "product" => {
                let r = product_bfs();
                for (k, n) in &r.known {
                    let key = product_key(k, r.known_set.get(k).map(|x| x.len() as u64).unwrap_or(0), r.known_fp.get(k).cloned().unwrap_or(0));
                    let _ = st.judge(Err(Failure::keyed(key, format!("{} divergent (state, byte) steps in the product", n))));
                }
                match r.violations.first() {
                    Some((p, m)) => Err(Failure::new(format!("after bytes {}: {}", hex(p), m))),
                    None => Ok(()),
                }
            }
            "seg" => seg_check(&serde_json::from_value(case.clone()).map_err(bad)?, st),
            "sticky" => sticky_check(&serde_json::from_value(case.clone()).map_err(bad)?, st),
            "pressure" => pressure_check(&serde_json::from_value(case.clone()).map_err(bad)?, st),
            _ => e2e_check(&serde_json::from_value(case.clone()).map_err(bad)?, st),
        }
    }
}
