use crate::vf::engine::Prop;

pub mod c01;

pub fn all() -> Vec<Box<dyn Prop>> {
    vec![Box::new(c01::C01)]
}
