// C16 — ONC-RPC/portmapper: replies correlated, framed, advertise the contacted endpoint.

use crate::vf::shadow::{shadow_opt, with_shadow, Shadow};
use proptest::prelude::*;
use serde::{Deserialize, Serialize};
use serde_json::{json, Value};
use std::net::IpAddr;

use crate::vf::codec::{AmbientGuard, IpTweak};
use crate::vf::dec_app::*;
use crate::vf::engine::*;
use crate::vf::gen::*;
use crate::vf::gen_app::*;
use crate::vf::props::c12::app_exchange;
use crate::vf::sut::*;
use crate::vf::util::*;

pub struct C16;

#[derive(Clone, Debug, Serialize, Deserialize, PartialEq)]
pub struct Case {
    pub scn: Scenario,
    pub sport: u16,
    pub dport: u16,
    pub tcp: bool,
    pub call: RpcCall,
    /// earlier datagrams from other source ports: calls cut short at the given position (history
    /// must not matter: the judged call is answered as if it were alone)
    #[serde(default)]
    pub pre: Vec<(RpcCall, u16)>,
    /// IP / TCP header fields the responder is not documented to look at
    #[serde(default)]
    pub tweak: Option<IpTweak>,
    /// sibling traffic sent before every frame of the case (vf/shadow.rs)
    #[serde(default)]
    pub shadow: Option<Shadow>,
}

pub fn case_strategy() -> impl Strategy<Value = Case> {
    (case_strategy0(), shadow_opt()).prop_map(|(mut c, sh)| {
        c.shadow = sh;
        c
    })
}

fn case_strategy0() -> impl Strategy<Value = Case> {
    (scenario_levels(Fam::Any), port(), port(), any::<bool>(), rpc_call(), prop_oneof![3 => Just(vec![]), 1 => proptest::collection::vec((rpc_call(), any::<u16>()), 1..3)], prop::option::weighted(0.25, crate::vf::props::c03::ip_tcp_tweak())).prop_map(|(scn, sport, dport, tcp, call, pre, tweak)| Case { shadow: None, scn, sport, dport, tcp, call, pre, tweak })
}

fn parse_uaddr(s: &str) -> Option<(IpAddr, u16)> {
    // "<ip>.<port>>8>.<port&255>"
    let mut it = s.rsplitn(3, '.');
    let lo: u16 = it.next()?.parse().ok()?;
    let hi: u16 = it.next()?.parse().ok()?;
    let ip: IpAddr = it.next()?.parse().ok()?;
    if lo > 255 || hi > 255 {
        return None;
    }
    Some((ip, (hi << 8) | lo))
}

pub fn check_reply(c: &Case, a: &[u8]) -> Check {
    let call = &c.call;
    let dst = c.scn.net.sip;
    let v4 = c.scn.net.is_v4();
    let mut body = a;
    if c.tcp {
        vensure!(a.len() >= 4, "reply shorter than a record mark");
        let rm = be32(a, 0);
        vensure!(rm & 0x8000_0000 != 0, "record mark {:#010x} without the last-fragment bit", rm);
        vensure!((rm & 0x7fff_ffff) as usize == a.len() - 4, "record mark announces {} bytes, {} follow", rm & 0x7fff_ffff, a.len() - 4);
        body = &a[4..];
    }
    vensure!(body.len() % 4 == 0, "reply length {} is not a multiple of 4", body.len());
    let mut x = Xdr::new(body);
    let e = |s: String| Failure::new(s);
    vensure!(x.u32().map_err(e)? == call.xid, "XID not echoed (sent {:#010x})", call.xid);
    vensure!(x.u32().map_err(e)? == 1, "msg_type is not REPLY");
    vensure!(x.u32().map_err(e)? == 0, "reply_stat is not MSG_ACCEPTED");
    let vf = x.u32().map_err(e)?;
    let vb = x.opaque().map_err(e)?;
    vensure!(vf == 0 && vb.is_empty(), "verifier is not AUTH_NONE/empty (flavor {}, {} bytes)", vf, vb.len());
    let stat = x.u32().map_err(e)?;
    if call.version < 2 || call.version > 4 {
        vensure!(stat == 2, "program version {}: accept_stat {} instead of PROG_MISMATCH(2)", call.version, stat);
        let (lo, hi) = (x.u32().map_err(e)?, x.u32().map_err(e)?);
        vensure!(lo == 2 && hi == 4, "PROG_MISMATCH advertises versions {}..{} instead of 2..4", lo, hi);
    } else if call.procedure == 0 {
        vensure!(stat == 0, "NULL procedure: accept_stat {} instead of SUCCESS", stat);
    } else if call.program == 100000 {
        match call.procedure {
            3 => {
                vensure!(stat == 0, "GETPORT/GETADDR: accept_stat {}", stat);
                if call.version == 2 {
                    let p = x.u32().map_err(e)?;
                    vensure!(p == c.dport as u32, "GETPORT returns port {} but the client contacted port {}", p, c.dport);
                } else {
                    let s = String::from_utf8(x.opaque().map_err(e)?).map_err(|_| Failure::new("universal address is not UTF-8"))?;
                    let (ip, port) = parse_uaddr(&s).ok_or_else(|| Failure::new(format!("universal address {:?} does not parse", s)))?;
                    vensure!(ip == dst && port == c.dport, "GETADDR returns {:?} but the client contacted {} port {}", s, dst, c.dport);
                }
            }
            4 => {
                vensure!(stat == 0, "DUMP: accept_stat {}", stat);
                let mut entries = 0;
                loop {
                    let follows = x.u32().map_err(e)?;
                    if follows == 0 {
                        break;
                    }
                    vensure!(follows == 1, "DUMP list: value-follows discriminant {}", follows);
                    entries += 1;
                    vensure!(entries <= 64, "DUMP list does not terminate");
                    let _prog = x.u32().map_err(e)?;
                    let _vers = x.u32().map_err(e)?;
                    if call.version == 2 {
                        let prot = x.u32().map_err(e)?;
                        let port = x.u32().map_err(e)?;
                        vensure!(prot == 6 || prot == 17, "DUMP v2 entry with protocol {}", prot);
                        vensure!(port == c.dport as u32, "DUMP entry advertises port {} but the client contacted port {}", port, c.dport);
                    } else {
                        let netid = String::from_utf8_lossy(&x.opaque().map_err(e)?).to_string();
                        let ua = String::from_utf8_lossy(&x.opaque().map_err(e)?).to_string();
                        let _owner = x.opaque().map_err(e)?;
                        let ok_netid = if v4 { netid == "tcp" || netid == "udp" } else { netid == "tcp6" || netid == "udp6" };
                        vensure!(ok_netid, "DUMP entry netid {:?} does not match IPv{}", netid, if v4 { 4 } else { 6 });
                        let (ip, port) = parse_uaddr(&ua).ok_or_else(|| Failure::new(format!("universal address {:?} does not parse", ua)))?;
                        vensure!(ip == dst && port == c.dport, "DUMP entry advertises {:?} but the client contacted {} port {}", ua, dst, c.dport);
                    }
                }
                vensure!(entries >= 1, "DUMP returns an empty list");
            }
            _ => vensure!(stat == 5, "portmapper procedure {}: accept_stat {} instead of PROC_UNAVAIL(5)", call.procedure, stat),
        }
    } else {
        vensure!(stat == 1, "program {}: accept_stat {} instead of PROG_UNAVAIL(1)", call.program, stat);
    }
    vensure!(x.done(), "{} bytes left over after the reply body", x.left());
    Ok(())
}

pub fn check(c: &Case, st: &mut Stats) -> Check {
    with_shadow(&c.shadow, st, |st| check0(c, st))
}

fn check0(c: &Case, st: &mut Stats) -> Check {
    Sut::reset();
    st.eval();
    let _ambient = AmbientGuard::set(&c.tweak);
    let sut = Sut::new(&c.scn.cfg);
    let bytes = if c.tcp { c.call.record() } else { c.call.msg() };
    match super::c10::divergence(&bytes, !c.tcp) {
        super::c10::Divergence::Known(k) => {
            st.exclude(k);
            return Ok(());
        }
        super::c10::Divergence::Unlisted(m) => vfail!("{}: {}", hex(&bytes[..bytes.len().min(64)]), m),
        super::c10::Divergence::None => {}
    }
    st.frames(if c.tcp { 2 } else { 1 });
    for (i, (p, cut)) in c.pre.iter().enumerate() {
        let mut m = p.msg();
        let k = pick(*cut, m.len() + 1);
        m.truncate(k);
        let o = sut.frame(&crate::vf::codec::udp_frame(&c.scn.net, c.sport.wrapping_add(1 + i as u16), c.dport, &m));
        if let Out::Panic(pn) = &o {
            return Err(Failure::keyed(pn.key(), format!("panic on a truncated call: {} {}", pn.file, pn.msg)));
        }
        st.frames(1);
    }
    if !c.pre.is_empty() {
        st.class("after-truncated-datagrams-from-other-ports");
    }
    let app = app_exchange(&sut, &c.scn.net, c.tcp, c.sport, c.dport, &bytes)?;
    let call = &c.call;
    let pc = if call.program == 100000 { "portmap" } else { "other-program" };
    let vc = if (2..=4).contains(&call.version) { format!("v{}", call.version) } else { "v-unsupported".into() };
    let prc = match call.procedure { 0 => "null", 3 => "getport/getaddr", 4 => "dump", _ => "other-proc" };
    let shape = format!("{}:{}:{}:{}:{}", pc, vc, prc, if c.tcp { "tcp" } else { "udp" }, if c.scn.net.is_v4() { "v4" } else { "v6" });
    st.class(&shape);
    if !call.aligned() {
        st.class("opaque-length-not-multiple-of-4");
    }
    if !call.verf.is_empty() {
        st.class("non-empty-verifier");
    }
    if call.cred_flavor == 1 {
        st.class("auth-sys-credential");
    }
    st.nontrivial(&shape);
    st.nontrivial_hash(fnv(&bytes));
    let a = match app {
        Some(a) => a,
        None => vfail!("ONC-RPC call not answered ({}; credential {} bytes, verifier {} bytes): {}", shape, call.cred.len(), call.verf.len(), hex(&bytes[..bytes.len().min(160)])),
    };
    st.sample(|| json!({"call": hex(&bytes[..bytes.len().min(80)]), "shape": shape, "reply": hex(&a[..a.len().min(100)])}));
    check_reply(c, &a).map_err(|f| Failure::new(format!("{} [{}; call {} -> reply {}]", f.msg, shape, hex(&bytes[..bytes.len().min(120)]), hex(&a[..a.len().min(200)]))))
}

impl Prop for C16 {
    fn id(&self) -> &'static str {
        "C16"
    }
    fn rule(&self) -> &'static str {
        "cases = ONC-RPC calls: arbitrary XID, RPC version low byte, program in 99840..100095 (100000 weighted), program version in {0..6, random u32, 104316}, procedure 0..255, credential flavour and length 0..64 (multiples of 4 and, tracked separately, other lengths with XDR padding), verifier length 0..400, AUTH_SYS credential bodies (stamp, machine name, uid, gid, gids; consistent, with a machine-name length that disagrees with the bytes present, or cut short), optional argument bytes; optionally preceded by 1..2 calls cut short at an arbitrary byte, sent as datagrams from other source ports; over UDP and over a handshaken TCP flow (record mark with last-fragment bit), IPv4 and IPv6, arbitrary destination address and port. Calls inside a listed matcher divergence (C10: XID first byte shadowed) are excluded and counted. Oracle: own XDR reader: record mark (last-fragment bit, length = rest) over TCP, XID echoed, REPLY / MSG_ACCEPTED / null verifier, then by precedence PROG_MISMATCH(2,4) for versions outside 2..4, empty SUCCESS for procedure 0, GETPORT = contacted port, GETADDR / DUMP universal addresses = contacted address and port with a netid of the right IP family and a well-formed value-follows list, PROC_UNAVAIL, PROG_UNAVAIL; length multiple of 4, nothing left over. Non-trivial = every identified call; distinct by message hash and by (program class, version class, procedure class, transport, IP version). Shadow traffic (vf/shadow.rs): three cases in ten process, before every frame of the case, a sibling of that frame whose result is discarded — the same frame again, or one tuple element (source / destination port, source / destination address, source MAC), one payload bit or the payload length changed; TCP conversations are shadowed whole on a sibling flow validated with its own cookie; sound by the statement of C08, cases whose own flows meet a shadow tuple are excluded and counted."
    }
    fn run(&self, ctx: &mut RunCtx) {
        let n = ctx.share(ctx.tier.n(2_500_000, 20_000_000));
        ctx.run_generated("rpc", n, case_strategy(), check);
    }
    fn replay(&self, _stream: &str, case: &Value, st: &mut Stats) -> Check {
        check(&serde_json::from_value(case.clone()).map_err(|e| Failure::new(format!("bad case: {}", e)))?, st)
    }
}
