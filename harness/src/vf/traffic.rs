// Symbolic traffic steps, their generators, and the interpreter that turns them into
// concrete frames against a live SUT (cookies are learned from the SUT at run time).

use proptest::collection::vec;
use proptest::prelude::*;
use serde::{Deserialize, Serialize};
use std::net::{IpAddr, Ipv4Addr, Ipv6Addr};

use super::codec::*;
use super::gen::*;
use super::gen_app::*;
use super::session::*;
use super::sut::{Out, Sut};
use super::util::*;

pub const NFLOWS: usize = 3;

#[derive(Clone, Debug, Serialize, Deserialize, PartialEq, Hash)]
pub enum BMut {
    Trunc(u16),
    Set(u16, u8),
    Set16(u16, u16),
    Set32(u16, u32),
    Insert(u16, Hex),
    Delete(u16, u8),
}

pub fn apply_bmuts(mut b: Vec<u8>, muts: &[BMut]) -> Vec<u8> {
    for m in muts {
        match m {
            BMut::Trunc(p) => {
                let k = pick(*p, b.len() + 1);
                b.truncate(k);
            }
            BMut::Set(p, v) => {
                if !b.is_empty() {
                    let k = pick(*p, b.len());
                    b[k] = *v;
                }
            }
            BMut::Set16(p, v) => {
                if b.len() >= 2 {
                    let k = pick(*p, b.len() - 1);
                    b[k] = (*v >> 8) as u8;
                    b[k + 1] = *v as u8;
                }
            }
            BMut::Set32(p, v) => {
                if b.len() >= 4 {
                    let k = pick(*p, b.len() - 3);
                    b[k..k + 4].copy_from_slice(&v.to_be_bytes());
                }
            }
            BMut::Insert(p, h) => {
                let k = pick(*p, b.len() + 1);
                let tail = b.split_off(k);
                b.extend_from_slice(h);
                b.extend_from_slice(&tail);
            }
            BMut::Delete(p, n) => {
                if !b.is_empty() {
                    let k = pick(*p, b.len());
                    let e = (k + *n as usize).min(b.len());
                    b.drain(k..e);
                }
            }
        }
    }
    b
}

pub fn bmut() -> BoxedStrategy<BMut> {
    let inner = (|| {
    let interesting8 = prop::sample::select(vec![0u8, 1, 2, 3, 4, 7, 8, 0x20, 0x7f, 0x80, 0xc0, 0xfe, 0xff, b'\r', b'\n', b' ', b':']);
    let interesting16 = prop::sample::select(vec![0u16, 1, 2, 3, 4, 5, 7, 8, 12, 20, 24, 28, 0x7fff, 0x8000, 0xfffe, 0xffff, 0x0100, 0x00ff]);
    let interesting32 = prop::sample::select(vec![0u32, 1, 4, 8, 0x7fffffff, 0x80000000, 0xffffffff, 0xfffffffe, 0x00010000, 0x01000000]);
    prop_oneof![
        3 => any::<u16>().prop_map(BMut::Trunc),
        3 => (any::<u16>(), interesting8).prop_map(|(p, v)| BMut::Set(p, v)),
        2 => (any::<u16>(), any::<u8>()).prop_map(|(p, v)| BMut::Set(p, v)),
        3 => (any::<u16>(), interesting16).prop_map(|(p, v)| BMut::Set16(p, v)),
        2 => (any::<u16>(), interesting32).prop_map(|(p, v)| BMut::Set32(p, v)),
        1 => (any::<u16>(), vec(any::<u8>(), 1..12)).prop_map(|(p, v)| BMut::Insert(p, Hex(v))),
        1 => (any::<u16>(), 1u8..8).prop_map(|(p, n)| BMut::Delete(p, n)),
    ]
})();
    inner.boxed()
}

/// hostile STUN: header + TLV list with lying lengths
#[derive(Clone, Debug, Serialize, Deserialize, PartialEq, Hash)]
pub struct HostileStun {
    pub mtype: u16,
    pub magic: bool,
    pub id: [u8; 16],
    /// (type, declared length, actual value bytes)
    pub tlvs: Vec<(u16, u16, Hex)>,
    /// difference between the declared message length and the real attribute bytes
    pub len_delta: i8,
    /// 1 / 2: a well-formed 260-byte SOFTWARE attribute after / before the list, so that the
    /// message length exceeds 255 and a magic-cookie message is identified as STUN (shorter ones
    /// fall into the matcher's listed shadowing divergence and never reach the attribute walk)
    #[serde(default)]
    pub big: u8,
}

impl HostileStun {
    pub fn bytes(&self) -> Vec<u8> {
        let mut ab = Vec::new();
        let pad = |ab: &mut Vec<u8>| {
            ab.extend_from_slice(&[0x80, 0x22, 0x01, 0x04]);
            ab.extend(std::iter::repeat(b'x').take(260));
        };
        if self.big == 2 {
            pad(&mut ab);
        }
        for (t, l, v) in &self.tlvs {
            ab.extend_from_slice(&t.to_be_bytes());
            ab.extend_from_slice(&l.to_be_bytes());
            ab.extend_from_slice(v);
        }
        if self.big == 1 {
            pad(&mut ab);
        }
        let mut v = Vec::new();
        v.extend_from_slice(&self.mtype.to_be_bytes());
        let l = (ab.len() as i64 + self.len_delta as i64).max(0).min(65535) as u16;
        v.extend_from_slice(&l.to_be_bytes());
        let mut id = self.id;
        if self.magic {
            id[0..4].copy_from_slice(&[0x21, 0x12, 0xa4, 0x42]);
        }
        v.extend_from_slice(&id);
        v.extend_from_slice(&ab);
        v
    }
}

pub fn hostile_stun() -> BoxedStrategy<HostileStun> {
    let inner = (|| {
    (
        prop_oneof![4 => Just(1u16), 1 => any::<u16>()],
        any::<bool>(),
        any::<[u8; 16]>(),
        vec(
            (
                prop_oneof![3 => Just(1u16), 2 => Just(3u16), 1 => Just(0x8022u16), 1 => Just(0x0020u16), 1 => any::<u16>()],
                prop_oneof![3 => 0u16..=24, 1 => prop::sample::select(vec![0xffffu16, 0x8000, 0x0100, 255, 256])],
                vec(any::<u8>(), 0..28),
            ),
            0..5,
        ),
        prop_oneof![3 => Just(0i8), 1 => -8i8..=8],
        prop_oneof![2 => Just(0u8), 2 => Just(1u8), 2 => Just(2u8)],
    )
        .prop_map(|(mtype, magic, id, tl, len_delta, big)| HostileStun {
            mtype,
            magic: magic || big != 0,
            big,
            id,
            tlvs: tl
                .into_iter()
                .map(|(t, l, mut v)| {
                    // half of the time make the value as long as declared (well-formed TLV of any type)
                    if (l as usize) <= 28 && v.len() % 2 == 0 {
                        v.resize(l as usize, 0x01);
                    }
                    // address attributes: a plausible family byte (0x01 / 0x02) half of the time
                    if (t == 1 || t == 0x20) && v.len() >= 2 && v[0] % 2 == 0 {
                        v[1] = 1 + (v[0] / 2) % 2;
                    }
                    (t, l, Hex(v))
                })
                .collect(),
            len_delta,
        })
})();
    inner.boxed()
}

#[derive(Clone, Debug, Serialize, Deserialize, PartialEq, Hash)]
pub enum Pay {
    App(AppReq),
    Mutated(AppReq, Vec<BMut>),
    Stun(HostileStun),
    Bytes(Hex),
}

impl Pay {
    pub fn bytes(&self, tcp: bool) -> Vec<u8> {
        match self {
            Pay::App(a) => a.bytes(tcp),
            Pay::Mutated(a, m) => apply_bmuts(a.bytes(tcp), m),
            Pay::Stun(s) => s.bytes(),
            Pay::Bytes(h) => h.0.clone(),
        }
    }
    pub fn kind(&self) -> String {
        match self {
            Pay::App(a) => format!("app:{}", a.kind()),
            Pay::Mutated(a, _) => format!("mut:{}", a.kind()),
            Pay::Stun(_) => "hostile-stun".into(),
            Pay::Bytes(_) => "bytes".into(),
        }
    }
}

pub fn pay() -> BoxedStrategy<Pay> {
    let inner = (|| {
    prop_oneof![
        3 => app_req().prop_map(Pay::App),
        5 => (app_req(), vec(bmut(), 1..4)).prop_map(|(a, m)| Pay::Mutated(a, m)),
        2 => hostile_stun().prop_map(Pay::Stun),
        1 => vec(any::<u8>(), 0..120).prop_map(|v| Pay::Bytes(Hex(v))),
    ]
})();
    inner.boxed()
}

#[derive(Clone, Debug, Serialize, Deserialize, PartialEq, Hash)]
pub enum AckMode {
    Good,
    Cookie,
    Plus2,
    Zero,
    Max,
    Rand(u32),
    /// cookie+1 of ANOTHER flow of the case (index)
    OtherFlow(u8),
    /// cookie + 1 + d: a near miss (d != 0; small and medium distances either side, e.g. what a
    /// client would acknowledge after a server banner of d bytes)
    Near(i32),
}

impl AckMode {
    /// the acknowledgement number; `other` = cookie of the flow named by OtherFlow
    pub fn value(&self, cookie: u32, other: u32) -> u32 {
        match self {
            AckMode::Good => cookie.wrapping_add(1),
            AckMode::Cookie => cookie,
            AckMode::Plus2 => cookie.wrapping_add(2),
            AckMode::Zero => 0,
            AckMode::Max => 0xffff_ffff,
            AckMode::Rand(r) => *r,
            AckMode::OtherFlow(_) => other.wrapping_add(1),
            AckMode::Near(d) => cookie.wrapping_add(1).wrapping_add(if *d == 0 { 1 } else { *d as u32 }),
        }
    }
    pub fn is_good(&self) -> bool {
        matches!(self, AckMode::Good)
    }
}

/// ICMP error types: (IPv4, IPv6)
pub fn icmp_err_type() -> impl Strategy<Value = (u8, u8)> {
    (prop::sample::select(vec![3u8, 3, 3, 11, 12, 4, 5]), prop::sample::select(vec![1u8, 1, 2, 3, 4]))
}

/// near-miss distances: 1..16, 17..4096, 4097..70000, either sign
pub fn near_delta() -> impl Strategy<Value = i32> {
    (prop_oneof![2 => 1i32..=16, 3 => 17i32..=4096, 1 => 4097i32..=70000], any::<bool>()).prop_map(|(d, neg)| if neg { -d } else { d })
}

#[derive(Clone, Debug, Serialize, Deserialize, PartialEq, Hash)]
pub enum Step {
    /// raw bytes handed over as a frame
    Raw(Hex),
    /// authorised (or not) destination MAC, arbitrary EtherType and payload
    L2 { ethertype: u16, payload: Hex, dmac_ok: bool },
    Arp { m: ArpM, pad: u8 },
    /// IPv4 header with lies; payload raw
    Ip4 { proto: u8, ver_ihl: Option<u8>, total_len: Option<u16>, flags_frag: u16, opt_words: u8, payload: Hex },
    Ip6 { next: u8, payload_len: Option<u16>, ver: u8, payload: Hex },
    /// ICMP (v4 or v6 according to the scenario family) with arbitrary type/code/rest
    Icmp { typ: u8, code: u8, rest: Hex },
    /// neighbour solicitation; `body` = bytes after the 4-byte ICMPv6 header (reserved+target+options), may be short
    Ns { code: u8, body: Hex, to_self_target: bool },
    Udp { sport: u16, dport: u16, pay: Pay, len_lie: Option<u16> },
    Syn { flow: u8, flags: u16, seq: u32, payload: Hex },
    Seg { flow: u8, flags: u16, ack: AckMode, seq: Option<u32>, pay: Pay, doff: Option<u8>, opt_words: u8 },
    /// an application payload delivered over a handshaken flow in several segments (cut positions
    /// monotone-mapped; biased towards CR / LF / SP / ':' boundaries by `snap`)
    SegSplit { flow: u8, pay: Pay, cuts: Vec<u16>, snap: bool },
    /// another step's frame behind 1..3 stacked VLAN tags (TPID 0x8100 / 0x88a8 / 0x9100 / 0x9200,
    /// VLAN id 0 = priority tag, 1, 4095, random), optionally cut short inside or right behind the tags
    Vlan { tags: Vec<(u16, u16)>, inner: Box<Step>, trunc: Option<u8> },
    /// consistent IPv4 packet whose header options are a hostile TLV list (Record Route 7,
    /// Timestamp 68, LSRR 131, SSRR 137, Router Alert 148, Security 130, NOP, EOL, unknown kinds;
    /// length bytes 0, 1, 2, correct, beyond the options area, 255), padded to a multiple of 4;
    /// the upper layer is an echo request / a SYN / a UDP datagram / raw bytes
    Ip4Opt { opts: Hex, upper: u8, payload: Hex },
    /// IPv6 packet with a chain of extension headers (hop-by-hop 0, routing 43, fragment 44, ESP 50,
    /// AH 51, destination options 60, mobility 135, HIP 139, shim6 140): per header the type, the
    /// real body length in 8-byte units, an optional lying Hdr Ext Len, the body fill; then the
    /// upper-layer protocol number and its bytes; optionally cut short
    Ip6Ext { hdrs: Vec<(u8, u8, Option<u8>, u8)>, last: u8, payload: Hex, trunc: Option<u16> },
    /// ICMP / ICMPv6 error message from the client quoting the header of a packet the responder
    /// would have sent to it: a TCP segment of flow `flow` (server port -> client port, sequence =
    /// the flow's cookie) or a UDP datagram (`sport` = the server's port, `dport` = the client's)
    IcmpErr { typ4: u8, typ6: u8, code: u8, tcp: bool, flow: u8, sport: u16, dport: u16, l4_len: u8 },
    /// frame-level mutation of another step's frame
    Mut { inner: Box<Step>, muts: Vec<BMut> },
}

impl Step {
    pub fn kind(&self) -> String {
        match self {
            Step::Raw(_) => "raw".into(),
            Step::L2 { .. } => "l2".into(),
            Step::Arp { .. } => "arp".into(),
            Step::Ip4 { .. } => "ip4-lies".into(),
            Step::Ip6 { .. } => "ip6-lies".into(),
            Step::Ip6Ext { .. } => "ip6-extension-headers".into(),
            Step::Ip4Opt { .. } => "ip4-hostile-options".into(),
            Step::Vlan { inner, .. } => format!("vlan({})", inner.kind()),
            Step::Icmp { .. } => "icmp".into(),
            Step::Ns { .. } => "nd-ns".into(),
            Step::Udp { pay, .. } => format!("udp/{}", pay.kind()),
            Step::Syn { .. } => "tcp-syn".into(),
            Step::Seg { pay, .. } => format!("tcp-seg/{}", pay.kind()),
            Step::SegSplit { pay, .. } => format!("tcp-split/{}", pay.kind()),
            Step::IcmpErr { .. } => "icmp-error".into(),
            Step::Mut { inner, .. } => format!("framemut({})", inner.kind()),
        }
    }
}

fn ndp_options() -> impl Strategy<Value = Vec<u8>> {
    vec((prop_oneof![2 => Just(1u8), 1 => Just(14u8), 1 => any::<u8>()], prop_oneof![4 => Just(1u8), 1 => Just(0u8), 1 => Just(2u8), 1 => prop::sample::select(vec![31u8, 32, 33, 64, 128, 255])], any::<[u8; 14]>()), 0..4).prop_map(|opts| {
        let mut v = Vec::new();
        for (t, l, d) in opts {
            v.push(t);
            v.push(l);
            let n = if l == 0 { 6 } else { ((l as usize) * 8 - 2).min(14) };
            v.extend_from_slice(&d[..n]);
        }
        v
    })
}

pub fn step_leaf() -> BoxedStrategy<Step> {
    prop_oneof![
        2 => prop_oneof![3 => vec(any::<u8>(), 0..80), 1 => vec(any::<u8>(), 0..14), 1 => vec(any::<u8>(), 80..1600)].prop_map(|v| Step::Raw(Hex(v))),
        2 => (prop_oneof![1 => Just(ET_ARP), 1 => Just(ET_V4), 1 => Just(ET_V6), 1 => any::<u16>()], vec(any::<u8>(), 0..80), prop::bool::weighted(0.9)).prop_map(|(ethertype, p, dmac_ok)| Step::L2 { ethertype, payload: Hex(p), dmac_ok }),
        2 => (any::<(u16, u16, u8, u8)>(), prop_oneof![3 => Just(1u16), 1 => Just(2u16), 1 => any::<u16>()], any::<([u8; 6], [u8; 4], [u8; 6], [u8; 4])>(), 0u8..20, any::<bool>())
            .prop_map(|((h, p, hl, pl), op, (sha, spa, tha, tpa), pad, wf)| Step::Arp { m: if wf { ArpM { htype: 1, ptype: 0x0800, hlen: 6, plen: 4, op, sha, spa, tha, tpa } } else { ArpM { htype: h, ptype: p, hlen: hl, plen: pl, op, sha, spa, tha, tpa } }, pad }),
        3 => (prop_oneof![1 => Just(P_ICMP), 1 => Just(P_TCP), 1 => Just(P_UDP), 1 => any::<u8>()], prop::option::of(any::<u8>()), prop::option::of(prop_oneof![1 => 0u16..64, 1 => any::<u16>()]), prop_oneof![3 => Just(0u16), 1 => any::<u16>()], 0u8..4, vec(any::<u8>(), 0..64))
            .prop_map(|(proto, ver_ihl, total_len, flags_frag, opt_words, p)| Step::Ip4 { proto, ver_ihl, total_len, flags_frag, opt_words, payload: Hex(p) }),
        2 => (prop_oneof![1 => Just(P_ICMP6), 1 => Just(P_TCP), 1 => Just(P_UDP), 1 => any::<u8>()], prop::option::of(prop_oneof![1 => 0u16..64, 1 => any::<u16>()]), prop_oneof![5 => Just(6u8), 1 => 0u8..16], vec(any::<u8>(), 0..64))
            .prop_map(|(next, payload_len, ver, p)| Step::Ip6 { next, payload_len, ver, payload: Hex(p) }),
        1 => (vec((prop::sample::select(vec![0u8, 43, 44, 50, 51, 60, 60, 0, 135, 139, 140]), prop_oneof![3 => Just(0u8), 1 => 1u8..4], prop::option::weighted(0.3, prop_oneof![2 => 0u8..6, 1 => Just(255u8), 1 => any::<u8>()]), prop::sample::select(vec![0u8, 1, 0xff])), 1..4), prop::sample::select(vec![58u8, 6, 17, 59, 0, 60, 41, 4]), prop_oneof![2 => vec(any::<u8>(), 0..40), 1 => Just(vec![128, 0, 0, 0, 0, 1, 0, 1, b'a', b'b']), 1 => Just(vec![0x9c, 0x40, 0, 80, 0, 0, 0, 1, 0, 0, 0, 0, 0x50, 2, 0x20, 0, 0, 0, 0, 0])], prop::option::weighted(0.25, any::<u16>()))
            .prop_map(|(hdrs, last, payload, trunc)| Step::Ip6Ext { hdrs, last, payload: Hex(payload), trunc }),
        1 => (vec((prop::sample::select(vec![7u8, 68, 131, 137, 148, 130, 1, 0, 7, 68, 0x94, 0x44]), prop_oneof![3 => Just(None), 2 => prop::sample::select(vec![0u8, 1, 2, 3, 4, 39, 40, 41, 255]).prop_map(Some)], vec(any::<u8>(), 0..12)), 1..5), any::<u8>(), vec(any::<u8>(), 0..24))
            .prop_map(|(tl, upper, payload)| {
                let mut o = Vec::new();
                for (k, lie, body) in tl {
                    o.push(k);
                    if k == 0 || k == 1 {
                        continue;
                    }
                    o.push(lie.unwrap_or((2 + body.len()) as u8));
                    o.extend_from_slice(&body);
                }
                Step::Ip4Opt { opts: Hex(o), upper, payload: Hex(payload) }
            }),
        3 => (prop_oneof![2 => Just(8u8), 2 => Just(128u8), 1 => Just(0u8), 1 => Just(129u8), 1 => Just(135u8), 1 => Just(136u8), 1 => any::<u8>()], prop_oneof![3 => Just(0u8), 1 => any::<u8>()], prop_oneof![3 => vec(any::<u8>(), 0..64), 1 => vec(any::<u8>(), 64..1500)])
            .prop_map(|(typ, code, rest)| Step::Icmp { typ, code, rest: Hex(rest) }),
        3 => (prop_oneof![4 => Just(0u8), 1 => any::<u8>()], prop_oneof![2 => (any::<[u8; 4]>(), any::<[u8; 16]>(), ndp_options()).prop_map(|(r, t, o)| { let mut v = r.to_vec(); v.extend_from_slice(&t); v.extend_from_slice(&o); v }), 1 => vec(any::<u8>(), 0..24)], any::<bool>())
            .prop_map(|(code, body, to_self_target)| Step::Ns { code, body: Hex(body), to_self_target }),
        6 => (port(), port(), pay(), prop::option::weighted(0.15, any::<u16>())).prop_map(|(sport, dport, pay, len_lie)| Step::Udp { sport, dport, pay, len_lie }),
        1 => (icmp_err_type(), prop_oneof![3 => 0u8..6, 1 => any::<u8>()], any::<bool>(), 0u8..NFLOWS as u8, port(), port(), prop_oneof![3 => Just(8u8), 1 => 8u8..40])
            .prop_map(|((typ4, typ6), code, tcp, flow, sport, dport, l4_len)| Step::IcmpErr { typ4, typ6, code, tcp, flow, sport, dport, l4_len }),
        2 => (0u8..NFLOWS as u8, prop_oneof![3 => Just(F_SYN), 1 => (0u16..512).prop_map(|f| f | F_SYN)], any::<u32>(), prop_oneof![3 => Just(vec![]), 1 => vec(any::<u8>(), 0..20)]).prop_map(|(flow, flags, seq, p)| Step::Syn { flow, flags, seq, payload: Hex(p) }),
        3 => (0u8..NFLOWS as u8, pay(), vec(any::<u16>(), 1..4), any::<bool>()).prop_map(|(flow, pay, cuts, snap)| Step::SegSplit { flow, pay, cuts, snap }),
        8 => (0u8..NFLOWS as u8, prop_oneof![6 => Just(F_PSH | F_ACK), 1 => (0u16..512).prop_map(|f| f | F_PSH | F_ACK), 1 => 0u16..512, 2 => prop::sample::select(vec![F_RST | F_ACK, F_FIN | F_ACK, F_ACK, F_RST, F_SYN | F_ACK, F_FIN, 0u16, F_FIN | F_PSH | F_ACK, F_URG | F_ACK, F_SYN | F_FIN, F_RST | F_FIN | F_ACK, F_SYN | F_RST, F_ECE | F_CWR | F_SYN, F_NS | F_ACK])], prop_oneof![8 => Just(AckMode::Good), 1 => Just(AckMode::Cookie), 1 => Just(AckMode::Zero), 1 => any::<u32>().prop_map(AckMode::Rand), 1 => near_delta().prop_map(AckMode::Near)], prop::option::weighted(0.2, any::<u32>()), pay(), prop::option::weighted(0.1, 0u8..16), prop_oneof![5 => Just(0u8), 1 => 1u8..10])
            .prop_map(|(flow, flags, ack, seq, pay, doff, opt_words)| Step::Seg { flow, flags, ack, seq, pay, doff, opt_words }),
    ]
    .boxed()
}

/// leaf steps that can never validate a TCP flow (no data segments with a good ack)
pub fn step_noise() -> BoxedStrategy<Step> {
    step_leaf()
        .prop_map(|s| match s {
            Step::Seg { flow, flags, seq, pay, doff, opt_words, .. } => Step::Seg { flow, flags, ack: AckMode::Cookie, seq, pay, doff, opt_words },
            Step::SegSplit { flow, pay, .. } => Step::Seg { flow, flags: F_PSH | F_ACK, ack: AckMode::Cookie, seq: None, pay, doff: None, opt_words: 0 },
            other => other,
        })
        .boxed()
}

pub fn vlan_tags() -> impl Strategy<Value = Vec<(u16, u16)>> {
    vec((prop::sample::select(vec![0x8100u16, 0x8100, 0x88a8, 0x9100, 0x9200]), prop_oneof![2 => Just(0u16), 1 => Just(1u16), 1 => Just(0x0fffu16), 1 => any::<u16>(), 1 => (0u16..8).prop_map(|p| p << 13)]), 1..=3)
}

pub fn step() -> BoxedStrategy<Step> {
    prop_oneof![
        8 => step_leaf(),
        2 => (step_leaf(), vec(bmut(), 1..3)).prop_map(|(s, muts)| Step::Mut { inner: Box::new(s), muts }),
        1 => (vlan_tags(), step_leaf(), prop::option::weighted(0.4, any::<u8>())).prop_map(|(tags, s, trunc)| Step::Vlan { tags, inner: Box::new(s), trunc }),
    ]
    .boxed()
}

/// Interpreter state: flows of one scenario, cookies learned from the SUT.
pub struct World<'a> {
    pub sut: &'a Sut,
    pub net: Net,
    pub flows: Vec<Flow>,
    pub cookies: Vec<Option<u32>>,
    pub next_seq: Vec<u32>,
    /// frames sent to the SUT (including cookie-learning SYNs)
    pub sent: u64,
}

impl<'a> World<'a> {
    pub fn new(sut: &'a Sut, net: &Net, base_sport: u16, dport: u16) -> World<'a> {
        let flows: Vec<Flow> = (0..NFLOWS).map(|i| Flow { net: net.clone(), sport: base_sport.wrapping_add(i as u16), dport }).collect();
        World { sut, net: net.clone(), flows, cookies: vec![None; NFLOWS], next_seq: vec![1000; NFLOWS], sent: 0 }
    }

    pub fn cookie(&mut self, flow: usize) -> Option<u32> {
        if self.cookies[flow].is_none() {
            self.sent += 1;
            if let Ok(c) = learn_cookie(self.sut, &self.flows[flow], 999) {
                self.cookies[flow] = Some(c);
            }
        }
        self.cookies[flow]
    }

    /// concrete frame for a step (may send a clean SYN first to learn a cookie)
    pub fn realize(&mut self, s: &Step) -> Vec<u8> {
        let net = self.net.clone();
        match s {
            Step::Raw(h) => h.0.clone(),
            Step::L2 { ethertype, payload, dmac_ok } => {
                let mut d = net.dmac;
                if !*dmac_ok {
                    d[5] ^= 0x40;
                    d[0] &= 0xfe;
                }
                eth(&d, &net.cmac, *ethertype, payload)
            }
            Step::Arp { m, pad } => {
                let mut p = arp(m);
                p.extend(std::iter::repeat(0u8).take(*pad as usize));
                eth(&net.dmac, &net.cmac, ET_ARP, &p)
            }
            Step::Ip4 { proto, ver_ihl, total_len, flags_frag, opt_words, payload } => {
                let (c, sv) = match (&net.cip, &net.sip) {
                    (IpAddr::V4(c), IpAddr::V4(s)) => (c.octets(), s.octets()),
                    _ => ([192, 0, 2, 1], [192, 0, 2, 2]),
                };
                let mut h = Ip4H::new(c, sv, *proto);
                h.ver_ihl = *ver_ihl;
                h.total_len = *total_len;
                h.flags_frag = *flags_frag;
                h.options = vec![1u8; *opt_words as usize * 4];
                eth(&net.dmac, &net.cmac, ET_V4, &ip4(&h, payload))
            }
            Step::Ip6 { next, payload_len, ver, payload } => {
                let (c, sv) = match (&net.cip, &net.sip) {
                    (IpAddr::V6(c), IpAddr::V6(s)) => (c.octets(), s.octets()),
                    _ => ([0x20; 16], [0x21; 16]),
                };
                let mut h = Ip6H::new(c, sv, *next);
                h.payload_len = *payload_len;
                h.ver = *ver;
                eth(&net.dmac, &net.cmac, ET_V6, &ip6(&h, payload))
            }
            Step::Ip4Opt { opts, upper, payload } => {
                let (c, sv) = match (&net.cip, &net.sip) {
                    (IpAddr::V4(c), IpAddr::V4(s)) => (c.octets(), s.octets()),
                    _ => ([192, 0, 2, 1], [192, 0, 2, 2]),
                };
                let (proto, l4): (u8, Vec<u8>) = match upper % 4 {
                    0 => {
                        let mut rest = vec![0, 7, 0, 9];
                        rest.extend_from_slice(payload);
                        (P_ICMP, icmp4(8, 0, &rest))
                    }
                    1 => (P_TCP, tcp_seg(&net.cip, &net.sip, &TcpH::new(40123, 80, 5, 0, F_SYN), &[])),
                    2 => (P_UDP, udp_dgram(&net.cip, &net.sip, 40123, 3478, payload, None)),
                    _ => (P_TCP, payload.0.clone()),
                };
                let mut h = Ip4H::new(c, sv, proto);
                let mut o = opts.0.clone();
                o.truncate(40);
                while o.len() % 4 != 0 {
                    o.push(0);
                }
                h.options = o;
                eth(&net.dmac, &net.cmac, ET_V4, &ip4(&h, &l4))
            }
            Step::Ip6Ext { hdrs, last, payload, trunc } => {
                let (c, sv) = match (&net.cip, &net.sip) {
                    (IpAddr::V6(c), IpAddr::V6(s)) => (c.octets(), s.octets()),
                    _ => ([0x20; 16], [0x21; 16]),
                };
                let first = hdrs.first().map(|h| h.0).unwrap_or(*last);
                let mut body = Vec::new();
                for (i, (_t, units, lie, fill)) in hdrs.iter().enumerate() {
                    let next = hdrs.get(i + 1).map(|h| h.0).unwrap_or(*last);
                    body.push(next);
                    body.push(lie.unwrap_or(*units));
                    body.extend(std::iter::repeat(*fill).take(6 + 8 * (*units as usize).min(8)));
                }
                body.extend_from_slice(payload);
                if let Some(t) = trunc {
                    let k = pick(*t, body.len() + 1);
                    body.truncate(k);
                }
                let h = Ip6H::new(c, sv, first);
                eth(&net.dmac, &net.cmac, ET_V6, &ip6(&h, &body))
            }
            Step::Icmp { typ, code, rest } => {
                if net.is_v4() {
                    ip_frame(&net, P_ICMP, &icmp4(*typ, *code, rest))
                } else {
                    ip_frame(&net, P_ICMP6, &icmp6(&net.cip, &net.sip, *typ, *code, rest))
                }
            }
            Step::Ns { code, body, to_self_target } => {
                // always IPv6; if the scenario is IPv4 use synthetic v6 addresses
                let n6 = if net.is_v4() {
                    Net { cmac: net.cmac, dmac: net.dmac, cip: IpAddr::V6(Ipv6Addr::from([0xfe, 0x80, 0, 0, 0, 0, 0, 0, 0, 0, 0, 0, 0, 0, 0, 9])), sip: IpAddr::V6(Ipv6Addr::from([0xfe, 0x80, 0, 0, 0, 0, 0, 0, 0, 0, 0, 0, 0, 0, 0, 7])) }
                } else {
                    net.clone()
                };
                let mut b = body.0.clone();
                if *to_self_target && b.len() >= 20 {
                    b[4..20].copy_from_slice(&ip_octets(&n6.sip));
                }
                ip_frame(&n6, P_ICMP6, &icmp6(&n6.cip, &n6.sip, 135, *code, &b))
            }
            Step::Udp { sport, dport, pay, len_lie } => {
                let p = pay.bytes(false);
                ip_frame(&net, P_UDP, &udp_dgram(&net.cip, &net.sip, *sport, *dport, &p, *len_lie))
            }
            Step::Syn { flow, flags, seq, payload } => {
                let f = &self.flows[*flow as usize % NFLOWS];
                tcp_frame(&net, &TcpH::new(f.sport, f.dport, *seq, 0, *flags), payload)
            }
            Step::Seg { flow, flags, ack, seq, pay, doff, opt_words } => {
                let fi = *flow as usize % NFLOWS;
                let cookie = self.cookie(fi).unwrap_or(0);
                let other = match ack {
                    AckMode::OtherFlow(g) => self.cookie(*g as usize % NFLOWS).unwrap_or(0),
                    _ => 0,
                };
                let ackno = ack.value(cookie, other);
                let p = pay.bytes(true);
                let sq = seq.unwrap_or(self.next_seq[fi]);
                if seq.is_none() {
                    self.next_seq[fi] = sq.wrapping_add(p.len() as u32);
                }
                let f = &self.flows[fi];
                let mut h = TcpH::new(f.sport, f.dport, sq, ackno, *flags);
                h.options = vec![1u8; *opt_words as usize * 4];
                h.doff = *doff;
                tcp_frame(&net, &h, &p)
            }
            Step::IcmpErr { typ4, typ6, code, tcp, flow, sport, dport, l4_len } => {
                let n = (*l4_len as usize).max(8);
                let typ = if net.is_v4() { typ4 } else { typ6 };
                if *tcp {
                    let fi = *flow as usize % NFLOWS;
                    let cookie = self.cookie(fi).unwrap_or(0);
                    let f = &self.flows[fi];
                    let mut l4 = tcp_seg(&net.sip, &net.cip, &TcpH::new(f.dport, f.sport, cookie, 1000, F_SYN | F_ACK), &[]);
                    l4.resize(n.max(8), 0);
                    icmp_error_frame(&net, *typ, *code, P_TCP, &l4)
                } else {
                    let mut l4 = udp_dgram(&net.sip, &net.cip, *sport, *dport, &[0u8; 24], None);
                    l4.truncate(n.min(l4.len()));
                    icmp_error_frame(&net, *typ, *code, P_UDP, &l4)
                }
            }
            Step::SegSplit { .. } => self.realize_multi(s).pop().unwrap_or_default(),
            Step::Mut { inner, muts } => {
                let f = self.realize(inner);
                apply_bmuts(f, muts)
            }
            Step::Vlan { tags, inner, trunc } => {
                let f = self.realize(inner);
                let mut v = vlan_tagged(&f, tags);
                if let Some(t) = trunc {
                    // keep 12 + 0..=(4*tags + 6) bytes
                    let k = 12 + (*t as usize) % (4 * tags.len() + 7);
                    v.truncate(k.min(v.len()));
                }
                v
            }
        }
    }

    /// frames of a step: one, except for SegSplit (one per segment)
    pub fn realize_multi(&mut self, s: &Step) -> Vec<Vec<u8>> {
        match s {
            Step::SegSplit { flow, pay, cuts, snap } => {
                let fi = *flow as usize % NFLOWS;
                let cookie = self.cookie(fi).unwrap_or(0);
                let p = pay.bytes(true);
                let mut cs: Vec<usize> = cuts.iter().map(|c| pick(*c, p.len() + 1)).collect();
                if *snap {
                    // move each cut to just after the next CR / LF / SP / ':' (parser boundaries)
                    for c in cs.iter_mut() {
                        let mut k = *c;
                        while k < p.len() && !matches!(p[k], b'\r' | b'\n' | b' ' | b':') {
                            k += 1;
                        }
                        *c = (k + 1).min(p.len());
                    }
                }
                cs.push(p.len());
                cs.sort();
                cs.dedup();
                let mut out = Vec::new();
                let mut prev = 0usize;
                for e in cs {
                    if e == prev && e != 0 {
                        continue;
                    }
                    let f = &self.flows[fi];
                    let sq = self.next_seq[fi];
                    out.push(tcp_frame(&self.net, &TcpH::new(f.sport, f.dport, sq, cookie.wrapping_add(1), F_PSH | F_ACK), &p[prev..e]));
                    self.next_seq[fi] = sq.wrapping_add((e - prev) as u32);
                    prev = e;
                }
                out
            }
            other => vec![self.realize(other)],
        }
    }

    /// send every frame of a step; returns (frame, outcome) pairs
    pub fn send_all(&mut self, s: &Step) -> Vec<(Vec<u8>, Out)> {
        let frames = self.realize_multi(s);
        let mut v = Vec::with_capacity(frames.len());
        for f in frames {
            self.sent += 1;
            let o = self.sut.frame(&f);
            v.push((f, o));
        }
        v
    }

    pub fn send(&mut self, s: &Step) -> (Vec<u8>, Out) {
        let f = self.realize(s);
        self.sent += 1;
        let o = self.sut.frame(&f);
        (f, o)
    }
}
