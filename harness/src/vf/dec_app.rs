// Independent decoders for the application replies (oracles of C10, C12-C19).

use std::io::Read;
use std::net::{IpAddr, Ipv4Addr, Ipv6Addr};

use super::util::*;

#[derive(Clone, Copy, Debug, PartialEq, Eq, Hash)]
pub enum Responder {
    Http,
    Ssh,
    Ghost,
    Stun,
    Dns,
    Rpc,
    Smb,
    Unknown,
}

pub fn classify_reply(p: &[u8], tcp: bool) -> Responder {
    if p.starts_with(b"HTTP/") {
        return Responder::Http;
    }
    if p.starts_with(b"SSH-") {
        return Responder::Ssh;
    }
    if p.starts_with(b"Gh0st") {
        return Responder::Ghost;
    }
    if p.len() >= 8 && p[0] == 0 && (&p[4..8] == b"\xffSMB" || &p[4..8] == b"\xfeSMB") {
        return Responder::Smb;
    }
    if p.len() >= 20 && p[0] == 1 && p[1] == 1 && be16(p, 2) as usize == p.len() - 20 {
        return Responder::Stun;
    }
    // the framing follows the signature that matched (RPC-over-TCP form may arrive in a datagram
    // and vice versa), so both framings are recognised on both transports
    let _ = tcp;
    if rpc_record_marked(p) {
        return Responder::Rpc;
    }
    if p.len() >= 12 && be32(p, 4) == 1 && be32(p, 8) == 0 {
        return Responder::Rpc;
    }
    if p.len() >= 12 && p[2] & 0x80 != 0 {
        return Responder::Dns;
    }
    Responder::Unknown
}

/// RPC reply framed by a record mark (last-fragment bit, length = rest, msg_type REPLY)
pub fn rpc_record_marked(p: &[u8]) -> bool {
    p.len() >= 16 && p[0] & 0x80 != 0 && (be32(p, 0) & 0x7fff_ffff) as usize == p.len() - 4 && be32(p, 8) == 1 && be32(p, 12) == 0
}

// ---------------------------------------------------------------------------------------
// HTTP

#[derive(Debug)]
pub struct HttpResp {
    pub status_line: String,
    pub headers: Vec<(String, String)>,
    pub body: Vec<u8>,
}

/// LF-tolerant response parser (line ends CRLF or bare LF)
pub fn parse_http_response(p: &[u8]) -> Result<HttpResp, String> {
    let mut i = 0;
    let mut lines: Vec<Vec<u8>> = Vec::new();
    loop {
        let e = match p[i..].iter().position(|b| *b == b'\n') {
            Some(k) => i + k,
            None => return Err("header block not terminated by an empty line".into()),
        };
        let mut line = p[i..e].to_vec();
        if line.last() == Some(&b'\r') {
            line.pop();
        }
        i = e + 1;
        if line.is_empty() {
            break;
        }
        lines.push(line);
    }
    if lines.is_empty() {
        return Err("no status line".into());
    }
    let status_line = String::from_utf8_lossy(&lines[0]).to_string();
    let mut headers = Vec::new();
    for l in &lines[1..] {
        let c = l.iter().position(|b| *b == b':').ok_or_else(|| format!("header line without colon: {:?}", String::from_utf8_lossy(l)))?;
        headers.push((String::from_utf8_lossy(&l[..c]).trim().to_string(), String::from_utf8_lossy(&l[c + 1..]).trim().to_string()));
    }
    Ok(HttpResp { status_line, headers, body: p[i..].to_vec() })
}

impl HttpResp {
    pub fn header(&self, name: &str) -> Option<&str> {
        self.headers.iter().find(|(n, _)| n.eq_ignore_ascii_case(name)).map(|(_, v)| v.as_str())
    }
}

// ---------------------------------------------------------------------------------------
// DNS

#[derive(Debug, Clone, PartialEq)]
pub struct DnsRr {
    pub name: Vec<Vec<u8>>,
    pub typ: u16,
    pub class: u16,
    pub ttl: u32,
    pub rdata: Vec<u8>,
}

#[derive(Debug, Clone, PartialEq)]
pub struct DnsMsg {
    pub id: u16,
    pub flags: u16,
    /// (labels, type, class, raw question bytes)
    pub questions: Vec<(Vec<Vec<u8>>, u16, u16, Vec<u8>)>,
    pub answers: Vec<DnsRr>,
    pub nscount: u16,
    pub arcount: u16,
    pub authority: Vec<DnsRr>,
    pub additional: Vec<DnsRr>,
    /// first byte after the question section
    pub questions_end: usize,
}

fn dns_name(p: &[u8], mut i: usize) -> Result<(Vec<Vec<u8>>, usize), String> {
    let mut labels = Vec::new();
    let mut end = None;
    let mut jumps = 0;
    loop {
        if i >= p.len() {
            return Err("name runs past the end of the message".into());
        }
        let l = p[i] as usize;
        if l == 0 {
            i += 1;
            break;
        }
        if l & 0xc0 == 0xc0 {
            if i + 1 >= p.len() {
                return Err("truncated compression pointer".into());
            }
            if end.is_none() {
                end = Some(i + 2);
            }
            i = ((l & 0x3f) << 8) | p[i + 1] as usize;
            jumps += 1;
            if jumps > 32 {
                return Err("compression pointer loop".into());
            }
            continue;
        }
        if l & 0xc0 != 0 {
            return Err(format!("label with reserved length bits {:#x}", l));
        }
        if i + 1 + l > p.len() {
            return Err("label runs past the end of the message".into());
        }
        labels.push(p[i + 1..i + 1 + l].to_vec());
        i += 1 + l;
    }
    Ok((labels, end.unwrap_or(i)))
}

fn dns_rr(p: &[u8], i: usize) -> Result<(DnsRr, usize), String> {
    let (name, mut j) = dns_name(p, i)?;
    if j + 10 > p.len() {
        return Err("truncated resource record header".into());
    }
    let typ = be16(p, j);
    let class = be16(p, j + 2);
    let ttl = be32(p, j + 4);
    let rdlen = be16(p, j + 8) as usize;
    j += 10;
    if j + rdlen > p.len() {
        return Err(format!("RDLENGTH {} runs past the end of the message", rdlen));
    }
    Ok((DnsRr { name, typ, class, ttl, rdata: p[j..j + rdlen].to_vec() }, j + rdlen))
}

/// parses the message completely; Err if counts do not match the records present or bytes are left over
pub fn parse_dns(p: &[u8]) -> Result<DnsMsg, String> {
    if p.len() < 12 {
        return Err("shorter than a DNS header".into());
    }
    let mut m = DnsMsg { id: be16(p, 0), flags: be16(p, 2), questions: vec![], answers: vec![], nscount: be16(p, 8), arcount: be16(p, 10), authority: vec![], additional: vec![], questions_end: 12 };
    let (qd, an) = (be16(p, 4), be16(p, 6));
    let mut i = 12;
    for k in 0..qd {
        let (labels, j) = dns_name(p, i).map_err(|e| format!("question {}: {}", k, e))?;
        if j + 4 > p.len() {
            return Err(format!("question {} truncated", k));
        }
        m.questions.push((labels, be16(p, j), be16(p, j + 2), p[i..j + 4].to_vec()));
        i = j + 4;
    }
    m.questions_end = i;
    for k in 0..an {
        let (rr, j) = dns_rr(p, i).map_err(|e| format!("answer {}: {}", k, e))?;
        m.answers.push(rr);
        i = j;
    }
    for k in 0..m.nscount {
        let (rr, j) = dns_rr(p, i).map_err(|e| format!("authority {}: {}", k, e))?;
        m.authority.push(rr);
        i = j;
    }
    for k in 0..m.arcount {
        let (rr, j) = dns_rr(p, i).map_err(|e| format!("additional {}: {}", k, e))?;
        m.additional.push(rr);
        i = j;
    }
    if i != p.len() {
        return Err(format!("{} bytes left after the records announced by the header counts", p.len() - i));
    }
    Ok(m)
}

// ---------------------------------------------------------------------------------------
// STUN

#[derive(Debug, Clone, PartialEq)]
pub struct StunMsg {
    pub mtype: u16,
    pub tid: [u8; 16],
    pub attrs: Vec<(u16, Vec<u8>)>,
}

pub fn parse_stun(p: &[u8]) -> Result<StunMsg, String> {
    if p.len() < 20 {
        return Err("shorter than a STUN header".into());
    }
    let l = be16(p, 2) as usize;
    if l != p.len() - 20 {
        return Err(format!("message length field {} but {} attribute bytes follow", l, p.len() - 20));
    }
    let mut tid = [0u8; 16];
    tid.copy_from_slice(&p[4..20]);
    let mut attrs = Vec::new();
    let mut i = 20;
    while i < p.len() {
        if i + 4 > p.len() {
            return Err("truncated attribute header".into());
        }
        let t = be16(p, i);
        let al = be16(p, i + 2) as usize;
        let padded = (al + 3) & !3;
        if i + 4 + al > p.len() {
            return Err(format!("attribute {:#06x} length {} runs past the message", t, al));
        }
        attrs.push((t, p[i + 4..i + 4 + al].to_vec()));
        i += 4 + padded.min(p.len() - i - 4);
    }
    Ok(StunMsg { mtype: be16(p, 0), tid, attrs })
}

/// (family, port, address) of a MAPPED-ADDRESS value
pub fn parse_mapped_address(v: &[u8]) -> Result<(u8, u16, IpAddr), String> {
    if v.len() < 4 {
        return Err("MAPPED-ADDRESS shorter than 4 bytes".into());
    }
    let fam = v[1];
    let port = be16(v, 2);
    match fam {
        1 if v.len() == 8 => Ok((1, port, IpAddr::V4(Ipv4Addr::new(v[4], v[5], v[6], v[7])))),
        2 if v.len() == 20 => {
            let mut a = [0u8; 16];
            a.copy_from_slice(&v[4..20]);
            Ok((2, port, IpAddr::V6(Ipv6Addr::from(a))))
        }
        _ => Err(format!("MAPPED-ADDRESS family {} with value length {}", fam, v.len())),
    }
}

// ---------------------------------------------------------------------------------------
// XDR

pub struct Xdr<'a> {
    pub b: &'a [u8],
    pub i: usize,
}

impl<'a> Xdr<'a> {
    pub fn new(b: &'a [u8]) -> Xdr<'a> {
        Xdr { b, i: 0 }
    }
    pub fn u32(&mut self) -> Result<u32, String> {
        if self.i + 4 > self.b.len() {
            return Err(format!("XDR: u32 at offset {} runs past the end ({} bytes)", self.i, self.b.len()));
        }
        let v = be32(self.b, self.i);
        self.i += 4;
        Ok(v)
    }
    pub fn opaque(&mut self) -> Result<Vec<u8>, String> {
        let l = self.u32()? as usize;
        let padded = (l + 3) & !3;
        if self.i + padded > self.b.len() {
            return Err(format!("XDR: opaque/string of length {} (+padding) at offset {} runs past the end ({} bytes)", l, self.i, self.b.len()));
        }
        let v = self.b[self.i..self.i + l].to_vec();
        for k in l..padded {
            if self.b[self.i + k] != 0 {
                return Err("XDR: non-zero padding".into());
            }
        }
        self.i += padded;
        Ok(v)
    }
    pub fn done(&self) -> bool {
        self.i == self.b.len()
    }
    pub fn left(&self) -> usize {
        self.b.len() - self.i
    }
}

// ---------------------------------------------------------------------------------------
// Gh0st

pub fn inflate(z: &[u8]) -> Result<Vec<u8>, String> {
    let mut d = flate2::read::ZlibDecoder::new(z);
    let mut out = Vec::new();
    d.read_to_end(&mut out).map_err(|e| format!("zlib: {}", e))?;
    // the whole input must be one zlib stream
    if d.total_in() as usize != z.len() {
        return Err(format!("zlib stream ends after {} of {} bytes", d.total_in(), z.len()));
    }
    Ok(out)
}
