// Thorough tier only: build and run the libFuzzer campaigns (E3) and fold their results into
// the verdict / evidence of the property being checked.

use std::path::{Path, PathBuf};
use std::process::{Command, Stdio};
use std::time::Instant;

use serde_json::{json, Value};

use super::util::*;

pub struct FuzzOutcome {
    /// (property tag, message, artifact path) for every reproduced oracle violation
    pub violations: Vec<(String, String, PathBuf)>,
    pub infra: Vec<String>,
    pub evidence: Value,
    pub executed: u64,
}

pub fn target_for(id: &str) -> Option<&'static str> {
    match id {
        "C01" | "C03" | "C04" => Some("fz_frames"),
        "C11" => Some("fz_stream"),
        _ => None,
    }
}

fn judge_input(target: &str, data: &[u8]) -> Result<u64, (String, String)> {
    if target == "fz_stream" {
        super::fuzz::stream_checked(data)
    } else {
        super::fuzz::frames_checked(data)
    }
}

pub fn run(id: &str, seed: u64, verif_dir: &Path, work: &Path, runs_per_job: u64, jobs: usize) -> FuzzOutcome {
    let mut out = FuzzOutcome { violations: vec![], infra: vec![], evidence: json!({}), executed: 0 };
    let target = match target_for(id) {
        Some(t) => t,
        None => return out,
    };
    let t0 = Instant::now();
    let fuzz_dir = verif_dir.join("fuzz");
    let tdir = match std::env::var("VERIF_TARGET_DIR") {
        Ok(d) => PathBuf::from(d).join("fuzz-target"),
        Err(_) => fuzz_dir.join("target"),
    };
    // keep the lock file in step with the harness's
    let _ = std::fs::copy(verif_dir.join("harness").join("Cargo.lock"), fuzz_dir.join("Cargo.lock"));
    let b = Command::new("cargo")
        .args(["+nightly", "fuzz", "build", "--fuzz-dir", ".", "--target-dir"])
        .arg(&tdir)
        .arg(target)
        .current_dir(&fuzz_dir)
        .env("RUSTFLAGS", "--cfg ivre_masscanned_verif -Awarnings")
        .env("CARGO_NET_OFFLINE", "true")
        .stdin(Stdio::null())
        .output();
    match b {
        Ok(o) if o.status.success() => {}
        Ok(o) => {
            out.infra.push(format!("cargo fuzz build {} failed: {}", target, String::from_utf8_lossy(&o.stderr).lines().rev().take(12).collect::<Vec<_>>().join(" | ")));
            return out;
        }
        Err(e) => {
            out.infra.push(format!("cannot run cargo fuzz build: {}", e));
            return out;
        }
    }
    let bin = tdir.join("x86_64-unknown-linux-gnu").join("release").join(target);
    if !bin.exists() {
        out.infra.push(format!("fuzz binary {} not found after build", bin.display()));
        return out;
    }
    let corpus = work.join("fuzz-corpus");
    let arts = work.join("fuzz-artifacts");
    let rundir = work.join("fuzz-run");
    for d in [&corpus, &arts, &rundir] {
        let _ = std::fs::create_dir_all(d);
    }
    let mut nseeds = 0;
    if let Ok(rd) = std::fs::read_dir(verif_dir.join("seeds").join(target)) {
        for e in rd.flatten() {
            if std::fs::copy(e.path(), corpus.join(e.file_name())).is_ok() {
                nseeds += 1;
            }
        }
    }
    let mut seed32 = (seed ^ (seed >> 32)) as u32;
    if seed32 == 0 {
        seed32 = 1; // libFuzzer: 0 means "random"
    }
    let st = Command::new(&bin)
        .arg(&corpus)
        .arg(format!("-runs={}", runs_per_job))
        .arg(format!("-seed={}", seed32))
        .arg("-max_len=4096")
        .arg("-len_control=0")
        .arg(format!("-jobs={}", jobs))
        .arg(format!("-workers={}", jobs))
        .arg(format!("-artifact_prefix={}/", arts.display()))
        .arg("-print_final_stats=1")
        .arg("-rss_limit_mb=4096")
        .arg("-timeout=60")
        .current_dir(&rundir)
        .env("ASAN_OPTIONS", "detect_leaks=0")
        .stdin(Stdio::null())
        .stdout(Stdio::null())
        .stderr(Stdio::null())
        .status();
    if let Err(e) = &st {
        out.infra.push(format!("cannot run {}: {}", bin.display(), e));
        return out;
    }
    // statistics from the per-job logs
    let mut executed = 0u64;
    let mut cov = 0u64;
    let mut logs = 0;
    if let Ok(rd) = std::fs::read_dir(&rundir) {
        for e in rd.flatten() {
            let name = e.file_name().to_string_lossy().to_string();
            if !name.starts_with("fuzz-") || !name.ends_with(".log") {
                continue;
            }
            logs += 1;
            if let Ok(t) = std::fs::read_to_string(e.path()) {
                for line in t.lines() {
                    if let Some(v) = line.strip_prefix("stat::number_of_executed_units:") {
                        executed += v.trim().parse::<u64>().unwrap_or(0);
                    }
                    if let Some(i) = line.find(" cov: ") {
                        let c: u64 = line[i + 6..].split_whitespace().next().and_then(|x| x.parse().ok()).unwrap_or(0);
                        cov = cov.max(c);
                    }
                }
            }
        }
    }
    out.executed = executed;
    // crash artifacts: re-judge in this (non-sanitizer, release-arithmetic) process
    let mut artifacts = 0;
    if let Ok(rd) = std::fs::read_dir(&arts) {
        for e in rd.flatten() {
            artifacts += 1;
            let data = match std::fs::read(e.path()) {
                Ok(d) => d,
                Err(_) => continue,
            };
            match judge_input(target, &data) {
                Err((p, m)) => {
                    let keep = verif_dir_out().join("replays").join(id);
                    let _ = std::fs::create_dir_all(&keep);
                    let dest = keep.join(format!("fuzz-{:016x}.bin", fnv(&data)));
                    let _ = std::fs::write(&dest, &data);
                    out.violations.push((p, m, dest));
                }
                Ok(_) => {
                    let keep = verif_dir_out().join("replays").join(id);
                    let _ = std::fs::create_dir_all(&keep);
                    let dest = keep.join(format!("fuzz-unreproduced-{:016x}.bin", fnv(&data)));
                    let _ = std::fs::write(&dest, &data);
                    out.infra.push(format!("libFuzzer artifact {} (timeout / memory / sanitizer report / debug-assertion) does not reproduce as an oracle violation in the release-arithmetic harness; kept as {}", e.file_name().to_string_lossy(), dest.display()));
                }
            }
        }
    }
    // replay the final corpus in this build too (cargo-fuzz builds have debug assertions on;
    // this process is the release-arithmetic half)
    let mut corpus_n = 0u64;
    if let Ok(rd) = std::fs::read_dir(&corpus) {
        for e in rd.flatten() {
            if let Ok(data) = std::fs::read(e.path()) {
                corpus_n += 1;
                if let Err((p, m)) = judge_input(target, &data) {
                    let keep = verif_dir_out().join("replays").join(id);
                    let _ = std::fs::create_dir_all(&keep);
                    let dest = keep.join(format!("fuzz-{:016x}.bin", fnv(&data)));
                    let _ = std::fs::write(&dest, &data);
                    out.violations.push((p, m, dest));
                }
            }
        }
    }
    if executed == 0 {
        out.infra.push(format!("fuzz campaign {} reported no executions ({} job logs)", target, logs));
    }
    out.evidence = json!({
        "target": target,
        "engine": "libFuzzer via cargo-fuzz (address sanitizer, debug assertions on); final corpus and artifacts re-judged in the release-arithmetic harness",
        "executions": executed,
        "jobs": jobs,
        "runs_per_job": runs_per_job,
        "libfuzzer_seed": seed32,
        "seed_inputs": nseeds,
        "final_corpus": corpus_n,
        "coverage_edges": cov,
        "artifacts": artifacts,
        "wall_s": t0.elapsed().as_secs_f64(),
    });
    out
}

fn verif_dir_out() -> PathBuf {
    if let Ok(d) = std::env::var("VERIF_OUT_DIR") {
        return PathBuf::from(d);
    }
    if let Ok(d) = std::env::var("VERIF_DIR") {
        return PathBuf::from(d);
    }
    PathBuf::from("/verif")
}
