// Verification harness for ivre/masscanned.
//
// masscanned is a binary-only crate, so its crate root is compiled *into* this
// crate: `mod client;` etc. inside the included file resolve relative to the
// included file (/repo/src), its `fn main` becomes dead code under
// `#![no_main]`, and cargo's dep-info tracks every /repo/src/**/*.rs, so this
// harness is rebuilt whenever /repo's working tree changes.
#![no_main]
#![allow(dead_code, unused_imports, unused_variables, unused_mut, unexpected_cfgs)]

include!(env!("VERIF_MASSCANNED_ROOT"));

mod vf;

#[export_name = "main"]
pub extern "C" fn c_main(_argc: i32, _argv: *const *const u8) -> i32 {
    match std::panic::catch_unwind(vf::cli::main) {
        Ok(code) => code,
        Err(_) => 2,
    }
}
