#!/usr/bin/env python3
"""Regenerate /verif/MANIFEST.json from the table below (development aid; the committed
MANIFEST.json is what counts)."""
import json, os, subprocess

V = os.path.dirname(os.path.dirname(os.path.abspath(__file__)))

CLAIMED = {
    # id: (technique, level text, level note, design ref)
}

def load_claims():
    p = os.path.join(V, "tools", "claims.json")
    with open(p) as f:
        return json.load(f)

def main():
    claims = load_claims()
    props = [json.loads(l) for l in open(os.path.join(V, "properties.jsonl")) if l.strip()]
    checks = []
    na = []
    for p in props:
        pid = p["id"]
        c = claims.get(pid)
        if not c or not c.get("claimed", True):
            na.append({"property_id": pid, "reason": (c or {}).get("reason", "check not built yet (work in progress); the technique applies, see DESIGN.md section 4")})
            continue
        checks.append({
            "property_id": pid,
            "quick_cmd": "./check %s quick" % pid,
            "thorough_cmd": "./check %s thorough" % pid,
            "evidence_file": "evidence/%s.json" % pid,
            "replay_cmd_template": "./check replay %s {path}" % pid,
            "engine": c.get("engine", "mverif"),
            "level_claimed": {
                "category": "exploration",
                "text": c["text"],
                "design_ref": c.get("design_ref", "DESIGN.md section 4, %s" % pid),
            },
            "level_note": c["note"],
            "technique": c["technique"],
        })
    hooks_commits = claims.get("_hooks", {}).get("source_commits", [])
    m = {
        "version": 1,
        "setup_cmd": "./check build",
        "hooks": {
            "guard": "--cfg ivre_masscanned_verif",
            "enable": "RUSTFLAGS='--cfg ivre_masscanned_verif' (set in harness/.cargo/config.toml and fuzz/.cargo/config.toml); the harness crate include!s /repo/src/masscanned.rs, so the hooks are compiled into the harness binary only",
            "baseline_off_cmd": "cd /repo && cargo test --offline",
            "source_commits": hooks_commits,
            "add_only": True,
        },
        "engines": [
            {"name": "mverif", "path": "harness/", "serves_properties": [c["property_id"] for c in checks],
             "kind_free_text": "in-process property-based testing harness: proptest 1.11 as a library (seeded TestRunner, shrinking, JSON replay files), hand-written exhaustive enumerators for finite sub-spaces, 16 single-threaded worker processes, independent frame codec / protocol decoders as oracles"},
            {"name": "fuzz", "path": "fuzz/", "serves_properties": claims.get("_fuzz", {}).get("serves", []),
             "kind_free_text": "cargo-fuzz / libFuzzer targets (structured frame records; semantic oracles inside the target), thorough tier only"},
        ],
        "checks": checks,
        "not_applicable": na,
        "notes": "All checks: exit 0 = property held on everything explored, 1 = VIOLATION line + replay file, 2 = inconclusive (build failure, watchdog, harness error) and never a violation. VERIF_SEED seeds every generator; a run is a pure function of (code, seed, tier). Known findings: KNOWN_FINDINGS.txt.",
    }
    with open(os.path.join(V, "MANIFEST.json"), "w") as f:
        json.dump(m, f, indent=1)
        f.write("\n")

if __name__ == "__main__":
    main()
